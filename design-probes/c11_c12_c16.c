#define _GNU_SOURCE
#include <picnic.h>
#include <stdio.h>
#include <stdlib.h>
#include <string.h>
#include <sys/mman.h>
#define DECL(P) int P##_keypair(unsigned char*,unsigned char*); int P##_nsign(unsigned char*,unsigned long long*,const unsigned char*,unsigned long long,const unsigned char*); int P##_open(unsigned char*,unsigned long long*,const unsigned char*,unsigned long long,const unsigned char*);
DECL(Picnic_L1_FS) DECL(Picnic_L1_UR) DECL(Picnic_L3_FS) DECL(Picnic_L3_UR) DECL(Picnic_L5_FS) DECL(Picnic_L5_UR) DECL(Picnic3_L1) DECL(Picnic3_L3) DECL(Picnic3_L5) DECL(Picnic_L1_full) DECL(Picnic_L3_full) DECL(Picnic_L5_full)
typedef int (*kp_f)(unsigned char*,unsigned char*); typedef int (*sg_f)(unsigned char*,unsigned long long*,const unsigned char*,unsigned long long,const unsigned char*); typedef int (*op_f)(unsigned char*,unsigned long long*,const unsigned char*,unsigned long long,const unsigned char*);
#define ROW(P) {P##_keypair,P##_nsign,P##_open}
static struct {kp_f kp; sg_f sg; op_f op;} N[13]={{0,0,0},ROW(Picnic_L1_FS),ROW(Picnic_L1_UR),ROW(Picnic_L3_FS),ROW(Picnic_L3_UR),ROW(Picnic_L5_FS),ROW(Picnic_L5_UR),ROW(Picnic3_L1),ROW(Picnic3_L3),ROW(Picnic3_L5),ROW(Picnic_L1_full),ROW(Picnic_L3_full),ROW(Picnic_L5_full)};
static const int NBITS[13]={0,128,128,192,192,256,256,129,192,255,129,192,255};
static uint8_t* edge(const void*src,size_t n){ size_t pg=4096, tot=((n+pg-1)/pg+1)*pg; uint8_t*m=mmap(0,tot,PROT_READ|PROT_WRITE,MAP_PRIVATE|MAP_ANONYMOUS,-1,0); mprotect(m+tot-pg,pg,PROT_NONE); uint8_t*p=m+tot-pg-n; if(src) memcpy(p,src,n); return p;}
static void unedge(uint8_t*p,size_t n){ size_t pg=4096, tot=((n+pg-1)/pg+1)*pg; munmap(p+n-(tot-pg),tot);} 
static unsigned long long s=88172645463325252ULL; static unsigned rnd(){s^=s<<13;s^=s>>7;s^=s<<17;return (unsigned)(s>>11);}
int main(){ long bad=0, n11=0,n12=0,n16=0;
  /* C11: import for all 256 param bytes x all lengths x padding */
  for(int pb=0;pb<256;pb++){ size_t pks=picnic_get_public_key_size(pb), sks=picnic_get_private_key_size(pb); int valid=pb>=1&&pb<=12; if(valid!=(pks!=0)||valid!=(sks!=0)){printf("C11 size query pb=%d\n",pb);bad++;}
    int ios= valid? (NBITS[pb]+7)/8 : 0; if(valid&&(pks!=(size_t)1+2*ios||sks!=(size_t)1+3*ios)){printf("C11 size pb=%d\n",pb);bad++;}
    for(size_t len=0;len<=98;len++){ uint8_t buf[100]; for(int i=0;i<100;i++) buf[i]=rnd(); buf[0]=pb; int padbits=valid?ios*8-NBITS[pb]:0; uint8_t mask=(uint8_t)~(0xff<<padbits);
      for(int variant=0;variant<3;variant++){ uint8_t b2[100]; memcpy(b2,buf,100); int padzero=1;
        if(valid){ for(int f=1;f<=3;f++){ if(variant==0) b2[f*ios]&=~mask; else if(variant==1){ if(f==1+(int)(len%3)) b2[f*ios]|= (mask? (1u<<(rnd()%padbits?rnd()%padbits:0)) :0); else b2[f*ios]&=~mask; } } for(int f=1;f<=3;f++) if(b2[f*ios]&mask) padzero=0; }
        int padzero_pk=1; if(valid) for(int f=1;f<=2;f++) if(b2[f*ios]&mask) padzero_pk=0;
        if(len>0){ uint8_t*e=edge(b2,len); picnic_publickey_t k1; picnic_privatekey_t k2; memset(&k1,0x77,sizeof k1); memset(&k2,0x77,sizeof k2);
          int r1=picnic_read_public_key(&k1,e,len), r2=picnic_read_private_key(&k2,e,len); n11+=2;
          int e1= valid&&len>=pks&&padzero_pk, e2= valid&&len>=sks&&padzero;
          if((r1==0)!=e1){printf("C11 read_pk pb=%d len=%zu variant=%d r=%d exp=%d\n",pb,len,variant,r1,e1);bad++;}
          if((r2==0)!=e2){printf("C11 read_sk pb=%d len=%zu variant=%d r=%d exp=%d\n",pb,len,variant,r2,e2);bad++;}
          if(r1==0){ uint8_t o[100]; int w=picnic_write_public_key(&k1,o,sizeof o); if(w!=(int)pks||memcmp(o,b2,pks)){printf("C11 roundtrip pk pb=%d\n",pb);bad++;} for(size_t c=0;c<=pks;c++){ uint8_t*oe=edge(NULL,c?c:1); int w2=picnic_write_public_key(&k1,c?oe:oe+1,c); if((w2==(int)pks)!=(c>=pks)){printf("C11/C06 write_pk cap=%zu w=%d\n",c,w2);bad++;} unedge(oe,c?c:1);} }
          if(r2==0){ uint8_t o[100]; int w=picnic_write_private_key(&k2,o,sizeof o); if(w!=(int)sks||memcmp(o,b2,sks)){printf("C11 roundtrip sk pb=%d\n",pb);bad++;} }
          unedge(e,len);
        }
      }
    }
  }
  printf("C11 probe: %ld calls, bad=%ld\n",n11,bad);
  /* C12: every meaningful bit + param bits */
  for(int p=1;p<13;p++){ picnic_publickey_t pk; picnic_privatekey_t sk; picnic_keygen(p,&pk,&sk); int n=NBITS[p], ios=(n+7)/8; size_t max=picnic_signature_size(p); uint8_t*sig=malloc(max); uint8_t msg[40]; memset(msg,5,40);
    int stride= (p>=7&&p<=9)? 16: 4; long cnt=0,b0=bad;
    for(int f=0;f<3;f++) for(int b=0;b<n;b+=stride){ picnic_privatekey_t c=sk; c.data[1+f*ios+b/8]^=0x80>>(b%8); memset(sig,0xC3,max); size_t l=max; int r=picnic_sign(&c,msg,40,sig,&l); cnt++; int touched=0; for(size_t i=0;i<max;i++) if(sig[i]!=0xC3){touched=1;break;} if(r==0||touched||l!=max){printf("C12 p=%d field=%d bit=%d r=%d touched=%d l=%zu\n",p,f,b,r,touched,l);bad++;} }
    for(int b=0;b<8;b++){ picnic_privatekey_t c=sk; c.data[0]^=1<<b; memset(sig,0xC3,max); size_t l=max; int r=picnic_sign(&c,msg,40,sig,&l); cnt++; int touched=0; for(size_t i=0;i<max;i++) if(sig[i]!=0xC3){touched=1;break;} if(r==0||touched){printf("C12 p=%d parambit=%d r=%d touched=%d newparam=%d\n",p,b,r,touched,c.data[0]);bad++;} }
    n12+=cnt; printf("C12 %s: %ld corruptions, new bad=%ld\n",picnic_get_param_name(p),cnt,bad-b0); fflush(stdout); free(sig);
  }
  /* C16: NIST framing, in-place, malformed */
  for(int p=1;p<13;p++){ long b0=bad; size_t pks=picnic_get_public_key_size(p), sks=picnic_get_private_key_size(p), max=picnic_signature_size(p); uint8_t pkb[100],skb[100]; if(N[p].kp(pkb,skb)){printf("C16 keypair fail\n");bad++;continue;}
    picnic_privatekey_t gsk; picnic_publickey_t gpk; if(picnic_read_private_key(&gsk,skb,sks)||picnic_read_public_key(&gpk,pkb,pks)||picnic_validate_keypair(&gsk,&gpk)){printf("C16 generic import of nist keys failed p=%d\n",p);bad++;}
    for(int it=0;it<4;it++){ size_t mlen= it==0?0: it==1?1: it==2?137: rnd()%600; uint8_t*m=malloc(mlen+1); for(size_t i=0;i<mlen;i++) m[i]=rnd();
      size_t cap=mlen+4+max; uint8_t*sm=edge(NULL,cap); unsigned long long smlen=0; int r=N[p].sg(sm,&smlen,m,mlen,skb); n16++;
      uint8_t*gs=malloc(max); size_t gl=max; picnic_sign(&gsk,m,mlen,gs,&gl);
      unsigned sl=sm[0]|sm[1]<<8|sm[2]<<16|(unsigned)sm[3]<<24;
      if(r||smlen!=4+mlen+gl||sl!=gl||memcmp(sm+4,m,mlen)||memcmp(sm+4+mlen,gs,gl)){printf("C16 framing p=%d mlen=%zu r=%d smlen=%llu gl=%zu sl=%u\n",p,mlen,r,smlen,gl,sl);bad++;}
      /* open disjoint, exact-size input at edge */
      uint8_t*in=edge(sm,smlen); uint8_t*om=edge(NULL,smlen); unsigned long long ml=0; r=N[p].op(om,&ml,in,smlen,pkb); n16++; if(r||ml!=mlen||memcmp(om,m,mlen)){printf("C16 open p=%d r=%d\n",p,r);bad++;}
      /* in place */
      uint8_t*ip=edge(sm,smlen); ml=0; r=N[p].op(ip,&ml,ip,smlen,pkb); n16++; if(r||ml!=mlen||memcmp(ip,m,mlen)){printf("C16 open inplace p=%d r=%d\n",p,r);bad++;}
      /* malformed: truncated lengths */
      for(size_t tl=0;tl<=8&&tl<smlen;tl++){ uint8_t*t=edge(sm,tl?tl:1); ml=0; r=N[p].op(om,&ml,tl?t:t+1,tl,pkb); n16++; if(r==0){printf("C16 open accepted truncated len=%zu p=%d\n",tl,p);bad++;} unedge(t,tl?tl:1);} 
      for(int k=0;k<6;k++){ size_t tl=rnd()%smlen; uint8_t*t=edge(sm,tl?tl:1); r=N[p].op(om,&ml,tl?t:t+1,tl,pkb); n16++; if(r==0){printf("C16 open accepted trunc %zu/%llu p=%d\n",tl,smlen,p);bad++;} unedge(t,tl?tl:1);} 
      unsigned prefixes[8]={0,1,sl-1,sl+1,(unsigned)smlen-3,(unsigned)smlen,0xffffffffu,0x80000000u};
      for(int k=0;k<8;k++){ uint8_t*t=edge(sm,smlen); unsigned v=prefixes[k]; t[0]=v;t[1]=v>>8;t[2]=v>>16;t[3]=v>>24; r=N[p].op(om,&ml,t,smlen,pkb); n16++; if(r==0 && v!=sl){printf("C16 open accepted prefix %u (true %u) p=%d\n",v,sl,p);bad++;} unedge(t,smlen);} 
      { uint8_t*t=edge(sm,smlen); size_t pos=rnd()%(smlen*8); t[pos/8]^=1<<(pos%8); r=N[p].op(om,&ml,t,smlen,pkb); n16++; if(r==0){printf("C16 open accepted flipped bit %zu p=%d\n",pos,p);bad++;} unedge(t,smlen);} 
      unedge(in,smlen); unedge(om,smlen); unedge(ip,smlen); unedge(sm,cap); free(gs); free(m);
    }
    printf("C16 %s new bad=%ld\n",picnic_get_param_name(p),bad-b0); fflush(stdout);
  }
  printf("TOTAL calls C11=%ld C12=%ld C16=%ld bad=%ld\n",n11,n12,n16,bad); return bad!=0;
}
