#include <stdio.h>
#include <stdlib.h>
#include <string.h>
#include "picnic_instances.h"
#include "picnic3_tree.h"
static unsigned long long s=0x9E3779B97F4A7C15ULL; static unsigned rnd(){s^=s<<13;s^=s>>7;s^=s<<17;return (unsigned)(s>>11);}
static size_t cost(const picnic_instance_t*pp,uint16_t*C){
  unsigned T=pp->num_rounds,u=pp->num_opened_rounds;
  size_t a=revealSeedsSize(T,C,u,pp);
  uint16_t miss[700]; size_t m=0; for(unsigned i=0;i<T;i++){int in=0; for(unsigned j=0;j<u;j++) if(C[j]==i) in=1; if(!in) miss[m++]=i;}
  size_t b=openMerkleTreeSize(T,miss,m,pp);
  return a+b;
}
int main(){
  int params[3]={Picnic3_L1,Picnic3_L3,Picnic3_L5};
  for(int pi=0;pi<3;pi++){ const picnic_instance_t*pp=picnic_instance_get(params[pi]); unsigned T=pp->num_rounds,u=pp->num_opened_rounds;
    uint16_t C[100]; size_t best=0; uint16_t bestC[100];
    // evenly spread start
    for(unsigned j=0;j<u;j++) C[j]=(j*T)/u; best=cost(pp,C); memcpy(bestC,C,sizeof C);
    size_t even=best;
    for(int it=0;it<60000;it++){ memcpy(C,bestC,sizeof C); unsigned j=rnd()%u; unsigned v; int dup; do{ v=rnd()%T; dup=0; for(unsigned k=0;k<u;k++) if(C[k]==v) dup=1;}while(dup); C[j]=v; size_t c=cost(pp,C); if(c>=best){best=c; memcpy(bestC,C,sizeof C);} }
    uint16_t h[1]={0}; size_t seedInfo=revealSeedsSize(16,h,1,pp);
    size_t fixed=pp->digest_size+32+u*(seedInfo+pp->view_size+pp->digest_size+pp->input_output_size+pp->view_size);
    printf("%s T=%u u=%u even=%zu best_tree_bytes=%zu fixed=%zu total=%zu constant=%zu margin=%ld\n",picnic_get_param_name(params[pi]),T,u,even,best,fixed,fixed+best,picnic_signature_size(params[pi]),(long)picnic_signature_size(params[pi])-(long)(fixed+best));
  }
}
