import hashlib
h=1469598103934665603; M=(1<<64)-1
def acc(b):
    global h
    for x in b: h=((h^x)*1099511628211)&M
cnt=0
for ds in (32,64):
    rate=168 if ds==32 else 136; maxL=3*rate+1; f=hashlib.shake_128 if ds==32 else hashlib.shake_256
    for L in range(maxL+1):
        ins=[bytes(((i*7+3+j*11+L)&255) for i in range(L)) for j in range(4)]
        d=[f(ins[j]).digest(200) for j in range(4)]
        for a in range(L+1):
            acc(d[0]); cnt+=1
            if a%5==0:
                for j in range(4): acc(d[j])
                cnt+=4
print(cnt,'%016x'%h)
