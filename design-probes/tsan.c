/* probe: 8 free-running threads, shared keys, ThreadSanitizer build of the default configuration */
#include <picnic.h>
#include <pthread.h>
#include <stdio.h>
#include <stdlib.h>
#include <string.h>
static picnic_publickey_t pk[13]; static picnic_privatekey_t sk[13];
static void* worker(void*a){ long id=(long)a; uint8_t msg[100]; memset(msg,id,100);
  for(int it=0;it<3;it++) for(int p=1;p<13;p++){ size_t max=picnic_signature_size(p); uint8_t*s=malloc(max); size_t l=max;
    if(picnic_sign(&sk[p],msg,100,s,&l)||picnic_verify(&pk[p],msg,100,s,l)){printf("FAIL\n");exit(1);}
    picnic_publickey_t q; picnic_privatekey_t r; picnic_keygen(p,&q,&r); free(s);} return 0;}
int main(){ for(int p=1;p<13;p++) picnic_keygen(p,&pk[p],&sk[p]); pthread_t t[8]; for(long i=0;i<8;i++) pthread_create(&t[i],0,worker,(void*)i); for(int i=0;i<8;i++) pthread_join(t[i],0); printf("done\n");}
