#!/bin/bash
# usage: cfg.sh name flags...
name=$1; shift
d=${SCRATCH:-/tmp/picnic-probe}/b_$name
rm -rf $d
if cmake -G Ninja -S /repo -B $d -DWITH_LTO=OFF -DWITH_MARCH_NATIVE=OFF "$@" >$d.cfg.log 2>&1; then
  if cmake --build $d --target picnic_static -j16 >$d.build.log 2>&1; then echo "$name: OK"; else echo "$name: BUILD FAIL"; grep -m5 -i "error" $d.build.log; fi
else echo "$name: CONFIGURE FAIL"; grep -m3 -i "error" $d.cfg.log; fi
rm -rf $d
