#!/bin/bash
# Throw-away probe helper: compile /repo's library sources directly (no CMake, no LTO).
# usage: mk.sh outdir {opt64|avx2|plain32} extra-cflags...      (needs /repo/_build/config.h)
out=$1; sha3=$2; shift 2
mkdir -p $out
SRCS="compat.c cpu.c io.c lowmc.c lowmc_128_128_20.c lowmc_129_129_4.c lowmc_192_192_30.c lowmc_192_192_4.c lowmc_255_255_4.c lowmc_256_256_38.c mpc_lowmc.c mzd_additional.c picnic.c picnic3_L1/picnic3_l1.c picnic3_L3/picnic3_l3.c picnic3_L5/picnic3_l5.c picnic3_impl.c picnic3_simulate.c picnic3_tree.c picnic3_types.c picnic_L1_FS/picnic_l1_fs.c picnic_L1_UR/picnic_l1_ur.c picnic_L1_full/picnic_l1_full.c picnic_L3_FS/picnic_l3_fs.c picnic_L3_UR/picnic_l3_ur.c picnic_L3_full/picnic_l3_full.c picnic_L5_FS/picnic_l5_fs.c picnic_L5_UR/picnic_l5_ur.c picnic_L5_full/picnic_l5_full.c picnic_impl.c picnic_instances.c randomness.c sha3/KeccakHash.c sha3/KeccakHashtimes4.c sha3/KeccakSponge.c sha3/KeccakSpongetimes4.c"
case $sha3 in
 opt64) SRCS="$SRCS sha3/opt64/KeccakP-1600-opt64.c sha3/opt64/KeccakP-1600-times4-on1.c";;
 avx2) SRCS="$SRCS sha3/avx2/KeccakP-1600-AVX2.s sha3/avx2/KeccakP-1600-times4-SIMD256.c";;
 plain32) SRCS="$SRCS sha3/plain32/KeccakP-1600-inplace32BI.c sha3/plain32/KeccakP-1600-times4-on1.c";;
esac
DEFS="-DHAVE_CONFIG_H -DNDEBUG -DPICNIC_EXPORT= -DPICNIC_STATIC -DWITH_KECCAK_X4 -DWITH_KKW -DWITH_ZKBPP -DWITH_UNRUH -DWITH_LOWMC_128_128_20 -DWITH_LOWMC_129_129_4 -DWITH_LOWMC_192_192_30 -DWITH_LOWMC_192_192_4 -DWITH_LOWMC_255_255_4 -DWITH_LOWMC_256_256_38"
for s in $SRCS; do
  o=$out/$(echo $s | tr '/' '_' | sed 's/\.[cs]$/.o/')
  lang=""; case $s in *.s) lang="-x assembler-with-cpp";; esac
  echo "gcc $DEFS $@ -I/repo/_build -I/repo -I/repo/sha3 -I/repo/sha3/$sha3 -std=gnu11 -O2 -g $lang -c /repo/$s -o $o"
done | xargs -P16 -I{} sh -c "{}"
ar rcs $out/libpicnic.a $out/*.o
