#include <stdio.h>
#include <stdint.h>
#include <string.h>
#include "kdf_shake.h"
static uint64_t h=1469598103934665603ULL; static void acc(const uint8_t*p,size_t n){ for(size_t i=0;i<n;i++) h=(h^p[i])*1099511628211ULL; }
int main(){ long cnt=0;
  for(int ds=32; ds<=64; ds+=32){ int rate= ds==32?168:136; int maxL=3*rate+1;
    for(int L=0;L<=maxL;L++){ uint8_t in[4][600]; for(int j=0;j<4;j++) for(int i=0;i<L;i++) in[j][i]=(uint8_t)(i*7+3+j*11+L);
      for(int a=0;a<=L;a++){ int s1=(a*7+L)%201; uint8_t out[200];
        hash_context c; hash_init(&c,ds); hash_update(&c,in[0],a); hash_update(&c,in[0]+a,L-a); hash_final(&c); hash_squeeze(&c,out,s1); hash_squeeze(&c,out+s1,200-s1); acc(out,200); cnt++;
        if(a%5==0){ hash_context_x4 x; uint8_t o4[4][200]; hash_init_x4(&x,ds); hash_update_x4_4(&x,in[0],in[1],in[2],in[3],a); hash_update_x4_4(&x,in[0]+a,in[1]+a,in[2]+a,in[3]+a,L-a); hash_final_x4(&x); hash_squeeze_x4_4(&x,o4[0],o4[1],o4[2],o4[3],s1); hash_squeeze_x4_4(&x,o4[0]+s1,o4[1]+s1,o4[2]+s1,o4[3]+s1,200-s1); for(int j=0;j<4;j++) acc(o4[j],200); cnt+=4; }
      }
    }
  }
  printf("%ld %016llx\n",cnt,(unsigned long long)h);
}
