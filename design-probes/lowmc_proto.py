import sys, re
def grain_ssg():
    state=[1]*80; index=0
    def step():
        nonlocal index
        state[index]^=state[(index+13)%80]^state[(index+23)%80]^state[(index+38)%80]^state[(index+51)%80]^state[(index+62)%80]
    for _ in range(160):
        step(); index=(index+1)%80
    while True:
        step(); choice=state[index]; index=(index+1)%80
        step()
        if choice==1: yield state[index]
        index=(index+1)%80
def rank(mat,ncols):
    rows=[int(''.join(map(str,r)),2) for r in mat]; rk=0
    for c in reversed(range(ncols)):
        piv=None
        for i in range(rk,len(rows)):
            if rows[i]>>c&1: piv=i;break
        if piv is None: continue
        rows[rk],rows[piv]=rows[piv],rows[rk]
        for i in range(len(rows)):
            if i!=rk and rows[i]>>c&1: rows[i]^=rows[rk]
        rk+=1
    return rk
def inst(n,m,gen):
    while True:
        mat=[[next(gen) for _ in range(m)] for _ in range(n)]
        if rank(mat,m)>=min(n,m): return mat
def gen_consts(n,k,r):
    g=grain_ssg()
    L=[inst(n,n,g) for _ in range(r)]
    C=[[next(g) for _ in range(n)] for _ in range(r)]
    K=[inst(n,k,g) for _ in range(r+1)]
    return L,C,K
def bits(bs,n): return [(bs[i//8]>>(7-i%8))&1 for i in range(n)]
def tobytes(b):
    out=bytearray((len(b)+7)//8)
    for i,x in enumerate(b):
        if x: out[i//8]|=1<<(7-i%8)
    return bytes(out)
def mul(M,v): return [sum(a&b for a,b in zip(row,v))&1 for row in M]
def xor(a,b): return [x^y for x,y in zip(a,b)]
def sbox(s,m):
    s=s[:]
    for i in range(m):
        a,b,c=s[3*i+2],s[3*i+1],s[3*i]
        s[3*i+2]=a^(b&c); s[3*i+1]=a^b^(a&c); s[3*i]=a^b^c^(a&b)
    return s
def enc(n,m,r,consts,key,pt,variant):
    L,C,K=consts
    s=xor(pt,mul(K[0],key))
    for i in range(r):
        if variant==0: s=sbox(s,m)
        else:
            # sboxes at the end (high indices), reversed order as in Picnic spec
            t=s[::-1]; t=sbox_rev(t,m); s=t[::-1]
        s=mul(L[i],s); s=xor(s,C[i]); s=xor(s,mul(K[i+1],key))
    return s
def sbox_rev(t,m):
    t=t[:]
    for i in range(m):
        c,b,a=t[3*i],t[3*i+1],t[3*i+2]
        # picnic: a=bit i+2, b=i+1, c=i ; new a = a^(b&c); new b = a^b^(c&a); new c = a^b^c^(a&b)
        t[3*i+2]=a^(b&c); t[3*i+1]=a^b^(a&c); t[3*i]=a^b^c^(a&b)
    return t
def kat(path):
    d={}
    for l in open(path):
        m=re.match(r'(\w+) = (\w+)',l)
        if m: d[m.group(1)]=m.group(2)
    return d
for name,n,m,r,ios in [('l1_full',129,43,4,17),('l3_full',192,64,4,24),('l5_full',255,85,4,32),('l1_fs',128,10,20,16),('l3_fs',192,10,30,24),('l5_fs',256,10,38,32),('picnic3_l1',129,43,4,17)]:
    d=kat('/repo/tests/kat_%s.txt'%name); sk=bytes.fromhex(d['sk'])
    key=bits(sk[1:1+ios],n); Cc=bits(sk[1+ios:1+2*ios],n); pt=bits(sk[1+2*ios:1+3*ios],n)
    consts=gen_consts(n,n,r)
    for v in (0,):
        out=enc(n,m,r,consts,key,pt,v)
        print(name,'variant',v,'match' if out==Cc else 'no', tobytes(out).hex()[:16], tobytes(Cc).hex()[:16])
