/* probe: keygen under a scripted entropy source: influence matrix, padding, failure points (C07) */
#include <picnic.h>
#include <stdio.h>
#include <stdlib.h>
#include <string.h>
#include <errno.h>
#include <sys/random.h>
static uint8_t stream[256]; static size_t spos; static int nreq, fail_req=-1, fail_kind; /* 0: -1/EAGAIN 1: short 0 2: short 1 3: short len-1 */
ssize_t __wrap_getrandom(void*b,size_t n,unsigned f){ int r=nreq++; if(r==fail_req){ if(fail_kind==0){errno=EAGAIN;return -1;} size_t k= fail_kind==1?0: fail_kind==2?1:n-1; memcpy(b,stream+spos,k); spos+=k; return k;} memcpy(b,stream+spos,n); spos+=n; return n; }
static const int NB[13]={0,128,128,192,192,256,256,129,192,255,129,192,255};
int main(){ long bad=0,calls=0;
  for(int p=1;p<13;p++){ int n=NB[p], ios=(n+7)/8; picnic_publickey_t pk; picnic_privatekey_t sk,base;
    memset(stream,0,sizeof stream); spos=0; nreq=0; fail_req=-1; if(picnic_keygen(p,&pk,&base)){printf("keygen fail\n");bad++;} int R=nreq; size_t consumed=spos; calls++;
    for(int i=1;i<=ios;i++) if(base.data[i]||base.data[1+2*ios+i-1]){printf("zero stream gives nonzero key p=%d\n",p);bad++;break;}
    if(picnic_validate_keypair(&base,&pk)){printf("zero key invalid p=%d\n",p);bad++;}
    memset(stream,0xff,sizeof stream); spos=0; nreq=0; picnic_keygen(p,&pk,&sk); calls++; { int ones=0; for(int b=0;b<n;b++){ ones+=(sk.data[1+b/8]>>(7-b%8))&1; ones+=(sk.data[1+2*ios+b/8]>>(7-b%8))&1;} int pad=0; for(int b=n;b<ios*8;b++){ pad+=(sk.data[1+b/8]>>(7-b%8))&1; pad+=(sk.data[1+ios+b/8]>>(7-b%8))&1; pad+=(sk.data[1+2*ios+b/8]>>(7-b%8))&1;} if(ones!=2*n||pad){printf("ones stream: ones=%d/%d pad=%d p=%d\n",ones,2*n,pad,p);bad++;} if(picnic_validate_keypair(&sk,&pk)){printf("ones key invalid\n");bad++;} }
    /* influence: each delivered bit j */
    static int owner[2][256]; memset(owner,-1,sizeof owner); int silent=0;
    for(size_t j=0;j<consumed*8;j++){ memset(stream,0,sizeof stream); stream[j/8]=0x80>>(j%8); spos=0; nreq=0; picnic_keygen(p,&pk,&sk); calls++; int changed=0,which_f=-1,which_b=-1; for(int f=0;f<3;f+=2) for(int b=0;b<ios*8;b++){ int v=(sk.data[1+f*ios+b/8]>>(7-b%8))&1; if(v){changed++;which_f=f/2;which_b=b;} }
      if(changed>1){printf("delivered bit %zu toggles %d key bits p=%d\n",j,changed,p);bad++;} else if(changed==1){ if(which_b>=n){printf("padding bit set p=%d\n",p);bad++;} if(owner[which_f][which_b]!=-1){printf("key bit fed by two delivered bits p=%d\n",p);bad++;} owner[which_f][which_b]=j; } else silent++;
      if(picnic_validate_keypair(&sk,&pk)){printf("unit key invalid\n");bad++;} picnic_publickey_t pk2; picnic_sk_to_pk(&sk,&pk2); if(memcmp(&pk,&pk2,picnic_get_public_key_size(p))){printf("sk_to_pk differs\n");bad++;} }
    int missing=0; for(int f=0;f<2;f++) for(int b=0;b<n;b++) if(owner[f][b]<0) missing++;
    if(missing||silent!=(int)(consumed*8-2*n)){printf("p=%d missing=%d silent=%d expected_silent=%zu\n",p,missing,silent,consumed*8-2*n);bad++;}
    /* failure points */
    for(int r=0;r<R;r++) for(int k=0;k<4;k++){ memset(stream,0x5a,sizeof stream); spos=0; nreq=0; fail_req=r; fail_kind=k; int rc=picnic_keygen(p,&pk,&sk); calls++; if(rc==0){printf("keygen succeeded with failure req=%d kind=%d p=%d\n",r,k,p);bad++;} } fail_req=-1;
    printf("%-15s requests=%d consumed=%zu bytes ok\n",picnic_get_param_name(p),R,consumed);
  }
  printf("calls=%ld bad=%ld\n",calls,bad); return bad!=0; }
