#define _GNU_SOURCE
#include <picnic.h>
#include <stdio.h>
#include <stdlib.h>
#include <string.h>
#include <stdbool.h>
#include <sys/random.h>
static unsigned caps_mask=0xffffffff; static long n_alloc,n_free,n_perm,n_perm4,n_fast,n_caps,n_rand;
void* __real_malloc(size_t); void* __real_calloc(size_t,size_t); void* __real_realloc(void*,size_t); void* __real_aligned_alloc(size_t,size_t); void __real_free(void*);
void* __wrap_malloc(size_t n){n_alloc++; void*p=__real_malloc(n); if(p) memset(p,0xA5,n); return p;}
void* __wrap_calloc(size_t a,size_t b){n_alloc++; return __real_calloc(a,b);}
void* __wrap_realloc(void*p,size_t n){n_alloc++; return __real_realloc(p,n);}
void* __wrap_aligned_alloc(size_t a,size_t n){n_alloc++; void*p=__real_aligned_alloc(a,n); if(p) memset(p,0x5A,n); return p;}
void __wrap_free(void*p){n_free++; __real_free(p);}
bool __real_cpu_supports(unsigned); bool __wrap_cpu_supports(unsigned c){n_caps++; return (caps_mask&c)==c && __real_cpu_supports(c);}
void __real_KeccakP1600_Permute_24rounds(void*); void __wrap_KeccakP1600_Permute_24rounds(void*s){n_perm++; __real_KeccakP1600_Permute_24rounds(s);}
void __real_KeccakP1600times4_PermuteAll_24rounds(void*); void __wrap_KeccakP1600times4_PermuteAll_24rounds(void*s){n_perm4++; __real_KeccakP1600times4_PermuteAll_24rounds(s);}
size_t __real_KeccakF1600_FastLoop_Absorb(void*,unsigned,const unsigned char*,size_t); size_t __wrap_KeccakF1600_FastLoop_Absorb(void*s,unsigned l,const unsigned char*d,size_t n){n_fast++; return __real_KeccakF1600_FastLoop_Absorb(s,l,d,n);}
static unsigned char rstate=1;
ssize_t __wrap_getrandom(void*b,size_t n,unsigned f){n_rand++; unsigned char*p=b; for(size_t i=0;i<n;i++){rstate=rstate*73+11; p[i]=rstate;} return n;}
static void reset(){n_alloc=n_free=n_perm=n_perm4=n_fast=n_caps=n_rand=0;}
int main(){
  for(int p=1;p<13;p++){
    picnic_publickey_t pk; picnic_privatekey_t sk; reset(); picnic_keygen(p,&pk,&sk);
    long kg_rand=n_rand, kg_caps=n_caps;
    size_t max=picnic_signature_size(p); uint8_t*s1=__real_malloc(max),*s2=__real_malloc(max); size_t l1=max,l2=max; uint8_t msg[500]; memset(msg,7,500);
    caps_mask=0xffffffff; reset(); int r1=picnic_sign(&sk,msg,500,s1,&l1); long a=n_alloc,f=n_free,pm=n_perm,p4=n_perm4,fa=n_fast,cp=n_caps;
    caps_mask=0x1; reset(); int r2=picnic_sign(&sk,msg,500,s2,&l2);
    int same = l1==l2 && !memcmp(s1,s2,l1);
    caps_mask=0x1; reset(); int v1=picnic_verify(&pk,msg,500,s1,l1); long va=n_alloc,vf=n_free,vp=n_perm,vp4=n_perm4;
    caps_mask=0xffffffff; int v2=picnic_verify(&pk,msg,500,s2,l2);
    printf("%-15s kg(rand=%ld caps=%ld) sign: alloc=%ld free=%ld perm=%ld perm4=%ld fast=%ld caps=%ld | verify: alloc=%ld free=%ld perm=%ld perm4=%ld | r=%d/%d v=%d/%d avx2==sse2:%d\n",picnic_get_param_name(p),kg_rand,kg_caps,a,f,pm,p4,fa,cp,va,vf,vp,vp4,r1,r2,v1,v2,same);
  }
}
