import hashlib, re, sys, pickle, os
exec(open(''+os.path.dirname(os.path.abspath(__file__))+'/lowmc_proto.py').read().split("def kat(")[0])
def kat(path):
    d={}
    for l in open(path):
        m=re.match(r'(\w+) = (\w+)',l)
        if m: d[m.group(1)]=m.group(2)
    return d
class P: pass
def inv_rows(rows,n):
    # rows: list of n ints (bit n-1-j = column j). returns inverse as list of ints
    A=[(rows[i]<<n)|(1<<(n-1-i)) for i in range(n)]
    for c in range(n):
        bit=1<<(2*n-1-c)
        piv=next(i for i in range(c,n) if A[i]&bit)
        A[c],A[piv]=A[piv],A[c]
        for i in range(n):
            if i!=c and A[i]&bit: A[i]^=A[c]
    return [a&((1<<n)-1) for a in A]
def params(name):
    p=P()
    tbl={'picnic3_l1':(129,43,4,32,16,250,36,17,65),'picnic3_l3':(192,64,4,48,24,419,52,24,96),'picnic3_l5':(255,85,4,64,32,601,68,32,128)}
    p.n,p.m,p.r,p.dig,p.seed,p.T,p.u,p.ios,p.view=tbl[name]; p.N=16
    cache=os.path.join(os.environ.get('PROBE_CACHE','/tmp'),'picnic_probe_consts_%d_%d.pkl'%(p.n,p.r))
    if os.path.exists(cache): p.L,p.C,p.K=pickle.load(open(cache,'rb'))
    else:
        p.L,p.C,p.K=gen_consts(p.n,p.n,p.r); pickle.dump((p.L,p.C,p.K),open(cache,'wb'))
    p.Li=[[int(''.join(map(str,row)),2) for row in M] for M in p.L]
    p.Ki=[[int(''.join(map(str,row)),2) for row in M] for M in p.K]
    p.Ci=[int(''.join(map(str,c)),2) for c in p.C]
    p.Linv=[inv_rows(M,p.n) for M in p.Li]; p.K0inv=inv_rows(p.Ki[0],p.n)
    return p
def H(p,data,outlen=None): return (hashlib.shake_128 if p.dig==32 else hashlib.shake_256)(data).digest(outlen or p.dig)
def b2i(p,bs): return int.from_bytes(bs,'big')>>(8*p.ios-p.n)
def i2b(p,x): return (x<<(8*p.ios-p.n)).to_bytes(p.ios,'big')
def mulm(p,rows,v):
    out=0
    for row in rows: out=(out<<1)|(bin(row&v).count('1')&1)
    return out
def gb(n,x,i): return (x>>(n-1-i))&1
def le16(x): return bytes([x&255,x>>8])
def getbit(bs,i): return (bs[i//8]>>(7-i%8))&1
def setbit(ba,i,v):
    if v: ba[i//8]|=1<<(7-i%8)
    else: ba[i//8]&=~(1<<(7-i%8))&0xff
def clog2(x): return (x-1).bit_length()
class Tree:
    def __init__(s,leaves,dsz):
        s.depth=clog2(leaves)+1; s.numNodes=((1<<s.depth)-1)-((1<<(s.depth-1))-leaves); s.numLeaves=leaves; s.first=s.numNodes-leaves
        s.data=[None]*s.numNodes; s.ex=[False]*s.numNodes
        for i in range(s.first,s.numNodes): s.ex[i]=True
        for i in range(s.first-1,-1,-1):
            s.ex[i]= (2*i+1<s.numNodes and s.ex[2*i+1]) or (2*i+2<s.numNodes and s.ex[2*i+2])
    def exists(s,i): return i<s.numNodes and s.ex[i]
    def hasRight(s,i): return 2*i+2<s.numNodes and s.exists(i)
    def isLeaf(s,i): return 2*i+1>=s.numNodes
    def hasSibling(s,i): return s.exists(i) and (i%2==0 or s.exists(i+1))
def parent(i): return ((i+1)>>1)-1
def expand(p,tr,salt,rep):
    last=parent(tr.numNodes-1)
    for i in range(last+1):
        if tr.data[i] is None: continue
        d=H(p,b'\x01'+tr.data[i]+salt+le16(rep)+le16(i),2*p.seed)
        if tr.data[2*i+1] is None: tr.data[2*i+1]=d[:p.seed]
        if tr.exists(2*i+2) and tr.data[2*i+2] is None: tr.data[2*i+2]=d[p.seed:]
def gen_seeds(p,n,root,salt,rep):
    tr=Tree(n,p.seed); tr.data[0]=root; expand(p,tr,salt,rep); return tr
def revealed_nodes(tr,hide):
    pathLen=tr.depth-1; paths=[[0]*len(hide) for _ in range(pathLen)]
    for i,h in enumerate(hide):
        node=h+tr.first; paths[0][i]=node; pos=1
        node=parent(node)
        while node!=0:
            paths[pos][i]=node; pos+=1; node=parent(node)
    rev=[]
    for d in range(pathLen):
        for i in range(len(hide)):
            node=paths[d][i]
            if not tr.hasSibling(node): continue
            sib=node+1 if node%2==1 else node-1
            if sib not in paths[d]:
                while (not tr.hasRight(sib)) and (not tr.isLeaf(sib)): sib=2*sib+1
                if sib not in rev: rev.append(sib)
    return rev
def merkle_revealed(tr,missing):
    miss=[False]*tr.numNodes
    for m in missing: miss[tr.first+m]=True
    for i in range(parent(tr.numNodes-1),0,-1):
        if not tr.exists(i): continue
        if tr.exists(2*i+2):
            if miss[2*i+1] and miss[2*i+2]: miss[i]=True
        else:
            if miss[2*i+1]: miss[i]=True
    rev=[]
    for m in missing:
        node=m+tr.first
        while True:
            if not miss[parent(node)]:
                if node not in rev: rev.append(node)
                break
            node=parent(node)
            if node==0: break
    return rev
def build_merkle(p,leaves,salt):
    tr=Tree(len(leaves),p.dig)
    for i,l in enumerate(leaves): tr.data[tr.first+i]=l
    for i in range(tr.numNodes-1,0,-1):
        if not tr.exists(i): continue
        par=parent(i)
        if tr.data[par] is not None: continue
        if tr.data[2*par+1] is None: continue
        if tr.exists(2*par+2) and tr.data[2*par+2] is None: continue
        d=b'\x03'+tr.data[2*par+1]
        if tr.hasRight(par): d+=(tr.data[2*par+2] if tr.data[2*par+2] is not None else bytes(p.dig))
        tr.data[par]=H(p,d+salt+le16(par))
    return tr
def sign(p,sk,Cc,pt,msg):
    n=p.n; T=p.T; N=p.N
    sr=H(p,sk+msg+Cc+pt+le16(n),32+p.seed); salt=sr[:32]; root=sr[32:]
    itree=gen_seeds(p,T,root,salt,0)
    key=b2i(p,sk); pti=b2i(p,pt)
    tapeLen=2*p.view
    rounds=[]
    for t in range(T):
        st=gen_seeds(p,N,itree.data[itree.first+t],salt,t)
        seeds=[st.data[st.first+j] for j in range(N)]
        tapes=[bytearray(H(p,seeds[j]+salt+le16(t)+le16(j),tapeLen)) for j in range(N)]
        par=bytearray(tapeLen)
        for j in range(N):
            for k in range(tapeLen): par[k]^=tapes[j][k]
        def parbits(pos): 
            x=0
            for k in range(n): x=(x<<1)|getbit(par,pos+k)
            return x
        key0=parbits(0); kmask=mulm(p,p.K0inv,key0)
        aux=bytearray(p.view)
        x=0
        for r in range(p.r,0,-1):
            x^=mulm(p,p.Ki[r],kmask); y=mulm(p,p.Linv[r-1],x)
            x = key0 if r==1 else parbits(2*n*(r-1))
            pos=2*n*(r-1)+n; apos=n*(r-1)
            for s in range(p.m):
                i=3*s
                a=gb(n,x,i+2); b=gb(n,x,i+1); c=gb(n,x,i); d=gb(n,y,i+2); e=gb(n,y,i+1); f=gb(n,y,i)
                for (ma,mb,fresh) in ((a,b,f^a^b^c),(b,c,d^a),(c,a,e^a^b)):
                    helper=0
                    for j in range(N-1): helper^=getbit(tapes[j],pos)
                    auxbit=(ma&mb)^helper^fresh
                    setbit(tapes[N-1],pos,auxbit); setbit(aux,apos,auxbit); pos+=1; apos+=1
        coms=[H(p,seeds[j]+(bytes(aux) if j==N-1 else b'')+salt+le16(t)+le16(j)) for j in range(N)]
        # online
        masked=key^kmask; inp=i2b(p,masked)
        msgs=[bytearray(p.view) for _ in range(N)]; mpos=0
        state=mulm(p,p.Ki[0],masked)^pti; tpos=0
        for r in range(p.r):
            ns=state
            for s in range(p.m):
                i=3*s
                a=gb(n,state,i+2); b=gb(n,state,i+1); c=gb(n,state,i)
                res=[]
                for gi,(xv,yv,xo,yo) in enumerate(((a,b,i+2,i+1),(b,c,i+1,i),(c,a,i,i+2))):
                    tot=0
                    for j in range(N):
                        mx=getbit(tapes[j],tpos+xo); my=getbit(tapes[j],tpos+yo); hl=getbit(tapes[j],tpos+n+i+gi)
                        sh=(xv&my)^(yv&mx)^hl
                        setbit(msgs[j],mpos+i+gi,sh); tot^=sh
                    res.append(tot^(xv&yv))
                ab,bc,ca=res
                for (bi,v) in ((i+2,a^bc),(i+1,a^b^ca),(i,a^b^c^ab)):
                    mbit=1<<(n-1-bi); ns=(ns|mbit) if v else (ns&~mbit)
            state=ns; tpos+=2*n; mpos+=n
            state=mulm(p,p.Li[r],state)^p.Ci[r]^mulm(p,p.Ki[r+1],masked)
        assert i2b(p,state)==Cc, "online output mismatch round %d"%t
        Ch=H(p,b''.join(coms)); Cv=H(p,inp+b''.join(bytes(m) for m in msgs))
        rounds.append((st,seeds,bytes(aux),coms,inp,msgs,Ch,Cv))
    mt=build_merkle(p,[r[7] for r in rounds],salt)
    h=H(p,b''.join(r[6] for r in rounds)+mt.data[0]+salt+Cc+pt+msg)
    sigh=h
    def chunks(h,bits):
        total=len(h)*8//bits; out=[]
        for i in range(total):
            v=0
            for j in range(bits): v+=getbit(h,i*bits+j)<<j
            out.append(v)
        return out
    Cl=[]; bC=clog2(T); bP=clog2(N)
    while len(Cl)<p.u:
        for ch in chunks(h,bC):
            if ch<T and ch not in Cl: Cl.append(ch)
            if len(Cl)==p.u: break
        h=H(p,b'\x01'+h)
    Pl=[]
    while len(Pl)<p.u:
        for ch in chunks(h,bP):
            if ch<N: Pl.append(ch)
            if len(Pl)==p.u: break
        h=H(p,b'\x01'+h)
    out=sigh+salt
    for nd in revealed_nodes(itree,Cl): out+=itree.data[nd]
    missing=[t for t in range(T) if t not in Cl]
    for nd in merkle_revealed(mt,missing): out+=mt.data[nd]
    for t in range(T):
        if t in Cl:
            P_t=Pl[Cl.index(t)]; st,seeds,aux,coms,inp,msgs,Ch,Cv=rounds[t]
            for nd in revealed_nodes(st,[P_t]): out+=st.data[nd]
            if P_t!=N-1: out+=aux
            out+=inp+bytes(msgs[P_t])+coms[P_t]
    return out
for name in sys.argv[1:]:
    p=params(name); d=kat('/repo/tests/kat_%s.txt'%name); skb=bytes.fromhex(d['sk']); msg=bytes.fromhex(d['msg']); sm=bytes.fromhex(d['sm'])
    sk=skb[1:1+p.ios]; Cc=skb[1+p.ios:1+2*p.ios]; pt=skb[1+2*p.ios:1+3*p.ios]
    ref=sm[4+len(msg):]
    sig=sign(p,sk,Cc,pt,msg)
    print(name,'len',len(sig),len(ref),'MATCH' if sig==ref else 'differ at %d'%next((i for i in range(min(len(sig),len(ref))) if sig[i]!=ref[i]),-1))
