# probe: model (zkb_proto / kkw_proto) vs the built library on non-KAT inputs (other message lengths, other keys)
import ctypes, os, sys, random, importlib.util, io, contextlib
here=os.path.dirname(os.path.abspath(__file__))
def load(name):
    src=open(os.path.join(here,name)).read().split("\nfor name in sys.argv[1:]:")[0]
    g={'__file__':os.path.join(here,name)}; exec(compile(src,name,'exec'),g); return g
Z=load('zkb_proto.py'); K=load('kkw_proto.py')
lib=ctypes.CDLL('/repo/_build/libpicnic.so')
lib.picnic_signature_size.restype=ctypes.c_size_t
def impl_sign(param,skbytes,msg):
    sk=ctypes.create_string_buffer(200); assert lib.picnic_read_private_key(sk,skbytes,len(skbytes))==0
    mx=lib.picnic_signature_size(param); out=ctypes.create_string_buffer(mx); ln=ctypes.c_size_t(mx)
    r=lib.picnic_sign(sk,msg,ctypes.c_size_t(len(msg)),out,ctypes.byref(ln)); assert r==0,r
    return out.raw[:ln.value]
rnd=random.Random(12345)
cases=[('l1_fs',1,Z),('l1_ur',2,Z),('l1_full',10,Z),('picnic3_l1',7,K)]
lens=[0,1,33,119,120,135,136,137,151,152,167,168,169,300,1000]
bad=0
for name,param,M in cases:
    p=M['params'](name)
    for i,ml in enumerate(lens):
        # fresh random key: sk, pt random (masked), C from the model's own LowMC
        mask=(0xff<<(8*p.ios-p.n))&0xff
        sk=bytearray(rnd.randbytes(p.ios)); sk[-1]&=mask; pt=bytearray(rnd.randbytes(p.ios)); pt[-1]&=mask
        b2i=M['b2i']; i2b=M['i2b']; mulm=M['mulm']
        # plain LowMC with the model's constants
        key=b2i(p,bytes(sk)); st=b2i(p,bytes(pt))^mulm(p,p.Ki[0],key)
        for r in range(p.r):
            ns=st
            for s in range(p.m):
                j=3*s; a=(st>>(p.n-1-(j+2)))&1; b=(st>>(p.n-1-(j+1)))&1; c=(st>>(p.n-1-j))&1
                for bi,v in ((j+2,a^(b&c)),(j+1,a^b^(a&c)),(j,a^b^c^(a&b))):
                    m=1<<(p.n-1-bi); ns=(ns|m) if v else (ns&~m)
            st=mulm(p,p.Li[r],ns)^p.Ci[r]^mulm(p,p.Ki[r+1],key)
        Cc=i2b(p,st); msg=rnd.randbytes(ml)
        skser=bytes([param])+bytes(sk)+Cc+bytes(pt)
        got=impl_sign(param,skser,msg)
        exp=M['sign'](p,bytes(sk),Cc,bytes(pt),msg,name) if M is Z else M['sign'](p,bytes(sk),Cc,bytes(pt),msg)
        ok=got==exp; bad+=not ok
        print(name,'mlen',ml,'len',len(got),'OK' if ok else 'MISMATCH'); sys.stdout.flush()
print('mismatches',bad)
