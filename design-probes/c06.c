#include <picnic.h>
#include <stdio.h>
#include <stdlib.h>
#include <string.h>
int main(){
  for(int p=1;p<13;p++){
    picnic_publickey_t pk; picnic_privatekey_t sk; picnic_keygen(p,&pk,&sk);
    size_t max=picnic_signature_size(p); uint8_t*buf=malloc(max+64); memset(buf,0xA5,max+64);
    size_t cap=100; size_t len=cap; uint8_t msg[33]={1};
    int r=picnic_sign(&sk,msg,33,buf,&len);
    size_t touched=0; for(size_t i=cap;i<max+64;i++) if(buf[i]!=0xA5) touched++;
    printf("%-16s cap=%zu ret=%d len_out=%zu bytes_touched_beyond_cap=%zu\n",picnic_get_param_name(p),cap,r,len,touched);
    free(buf);
  }
}
