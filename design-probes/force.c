#include <picnic.h>
#include <stdio.h>
#include <stdlib.h>
#include <string.h>
extern void (*picnic_verif_challenge_zkbpp)(unsigned int,uint8_t*);
extern void (*picnic_verif_challenge_kkw)(unsigned int,unsigned int,unsigned int,uint16_t*,uint16_t*);
static int mode; static unsigned long long s=1234567; static unsigned rnd(){s^=s<<13;s^=s>>7;s^=s<<17;return (unsigned)(s>>11);}
static void zk(unsigned T,uint8_t*ch){ for(unsigned i=0;i<T;i++) ch[i]= mode<3?mode: mode==3? (i%2?1:2) : mode==4? (i<T-5?0:1) : i%3; }
static int kmode; static unsigned kparty;
static void kk(unsigned T,unsigned u,unsigned N,uint16_t*C,uint16_t*P){ for(unsigned j=0;j<u;j++){ C[j]= kmode==0? (j*T)/u : kmode==1? j : kmode==2? T-1-j : (j*T)/u; P[j]= kmode==3? N-1 : kparty%N; } if(kmode==0){ /* unsorted order */ for(unsigned j=0;j+1<u;j+=2){ uint16_t t=C[j];C[j]=C[j+1];C[j+1]=t; } } }
int main(){ int bad=0;
  for(int p=1;p<13;p++){ picnic_publickey_t pk; picnic_privatekey_t sk; picnic_keygen(p,&pk,&sk); size_t max=picnic_signature_size(p); uint8_t*sig=malloc(max); uint8_t msg[50]; memset(msg,1,50);
    if(p>=7&&p<=9){ picnic_verif_challenge_kkw=kk; for(kmode=0;kmode<4;kmode++) for(kparty=0;kparty<16;kparty+= (kmode==0?5:15)){ size_t len=max; int r=picnic_sign(&sk,msg,50,sig,&len); int v= r?-9:picnic_verify(&pk,msg,50,sig,len); printf("%-12s kmode=%d party=%u sign=%d len=%zu/%zu verify=%d\n",picnic_get_param_name(p),kmode,kmode==3?15:kparty,r,len,max,v); if(r||v||len>max) bad++; } picnic_verif_challenge_kkw=NULL; }
    else { picnic_verif_challenge_zkbpp=zk; for(mode=0;mode<6;mode++){ size_t len=max; int r=picnic_sign(&sk,msg,50,sig,&len); int v= r?-9:picnic_verify(&pk,msg,50,sig,len); printf("%-15s mode=%d sign=%d len=%zu/%zu verify=%d\n",picnic_get_param_name(p),mode,r,len,max,v); if(r||v||len>max) bad++; } picnic_verif_challenge_zkbpp=NULL; }
    /* hook cleared: normal behaviour and tampering is rejected again */
    size_t len=max; picnic_sign(&sk,msg,50,sig,&len); sig[len/2]^=1; if(!picnic_verify(&pk,msg,50,sig,len)){printf("tamper accepted after hook cleared\n");bad++;}
    free(sig);
  }
  printf("bad=%d\n",bad); return bad; }
