import hashlib, re, sys, pickle, os
exec(open(''+os.path.dirname(os.path.abspath(__file__))+'/lowmc_proto.py').read().split("def kat(")[0])
def kat(path):
    d={}
    for l in open(path):
        m=re.match(r'(\w+) = (\w+)',l)
        if m: d[m.group(1)]=m.group(2)
    return d
class P: pass
def params(name):
    p=P()
    tbl={'l3_fs':(192,10,30,48,24,329,24,113,0),'l3_ur':(192,10,30,48,24,329,24,113,1),'l5_fs':(256,10,38,64,32,438,32,143,0),'l5_ur':(256,10,38,64,32,438,32,143,1),'l3_full':(192,64,4,48,24,329,24,96,0),'l5_full':(255,85,4,64,32,438,32,128,0),'l1_fs':(128,10,20,32,16,219,16,75,0),'l1_ur':(128,10,20,32,16,219,16,75,1),'l1_full':(129,43,4,32,16,219,17,65,0)}
    p.n,p.m,p.r,p.dig,p.seed,p.T,p.ios,p.view,p.ur=tbl[name]
    cache=os.path.join(os.environ.get('PROBE_CACHE','/tmp'),'picnic_probe_consts_%d_%d.pkl'%(p.n,p.r))
    if os.path.exists(cache): p.L,p.C,p.K=pickle.load(open(cache,'rb'))
    else:
        p.L,p.C,p.K=gen_consts(p.n,p.n,p.r); pickle.dump((p.L,p.C,p.K),open(cache,'wb'))
    # pack rows as ints for speed
    p.Li=[[int(''.join(map(str,row)),2) for row in M] for M in p.L]
    p.Ki=[[int(''.join(map(str,row)),2) for row in M] for M in p.K]
    p.Ci=[int(''.join(map(str,c)),2) for c in p.C]
    return p
def shake(p,data,outlen):
    return (hashlib.shake_128 if p.dig==32 else hashlib.shake_256)(data).digest(outlen)
# state as python int with bit0 = MSB (bit index i <-> (n-1-i) in int)
def b2i(p,bs): return int.from_bytes(bs,'big')>>(8*p.ios-p.n)
def i2b(p,x): return (x<<(8*p.ios-p.n)).to_bytes(p.ios,'big')
def mulm(p,rows,v):
    out=0
    for row in rows: out=(out<<1)|(bin(row&v).count('1')&1)
    return out
def gb(p,x,i): return (x>>(p.n-1-i))&1
def sb(p,x,i,v):
    m=1<<(p.n-1-i); return (x|m) if v else (x&~m)
def le16(x): return bytes([x&255,x>>8])
def mpc_lowmc(p,keys,pt,tapes):
    # keys: 3 ints; tapes: 3 byte strings (view_size); returns views(3 bytearrays), outputs(3 ints)
    st=[mulm(p,p.Ki[0],k) for k in keys]; st[0]^=pt
    views=[bytearray(p.view) for _ in range(3)]; pos=0
    def tb(j,pos): return (tapes[j][pos//8]>>(7-pos%8))&1
    for r in range(p.r):
        rk=[mulm(p,p.Ki[r+1],k) for k in keys]
        for s in range(p.m):
            i=3*s
            a=[gb(p,st[j],i+2) for j in range(3)]; b=[gb(p,st[j],i+1) for j in range(3)]; c=[gb(p,st[j],i) for j in range(3)]
            def AND(x,y):
                nonlocal pos
                rr=[tb(j,pos) for j in range(3)]
                out=[(x[j]&y[(j+1)%3])^(x[(j+1)%3]&y[j])^(x[j]&y[j])^rr[j]^rr[(j+1)%3] for j in range(3)]
                for j in range(3):
                    if out[j]: views[j][pos//8]|=1<<(7-pos%8)
                pos+=1
                return out
            ab=AND(a,b); bc=AND(b,c); ca=AND(c,a)
            for j in range(3):
                st[j]=sb(p,st[j],i+2,a[j]^bc[j]); st[j]=sb(p,st[j],i+1,a[j]^b[j]^ca[j]); st[j]=sb(p,st[j],i,a[j]^b[j]^c[j]^ab[j])
        st=[mulm(p,p.Li[r],x) for x in st]; st[0]^=p.Ci[r]
        st=[x^y for x,y in zip(st,rk)]
    return views,st
def sign(p,sk,Cc,pt,msg,name):
    T=p.T
    kdf=shake(p,sk+msg+Cc+pt+le16(p.n),T*3*p.seed+32)
    seeds=[[kdf[(t*3+j)*p.seed:(t*3+j+1)*p.seed] for j in range(3)] for t in range(T)]; salt=kdf[T*3*p.seed:]
    key=b2i(p,sk); pti=b2i(p,pt)
    padmask=(0xff<<(8*p.ios-p.n))&0xff
    rounds=[]
    for t in range(T):
        ish=[];tapes=[]
        for j in range(3):
            h2=shake(p,b'\x02'+seeds[t][j],p.dig)
            outlen=p.view+(p.ios if j<2 else 0)
            o=shake(p,h2+salt+le16(t)+le16(j)+le16(outlen),outlen)
            if j<2:
                s=bytearray(o[:p.ios]); s[-1]&=padmask; ish.append(bytes(s)); tapes.append(o[p.ios:])
            else: tapes.append(o)
        k=[b2i(p,ish[0]),b2i(p,ish[1])]; k.append(key^k[0]^k[1]); ish.append(i2b(p,k[2]))
        views,outs=mpc_lowmc(p,k,pti,tapes)
        osh=[i2b(p,o) for o in outs]
        com=[]
        for j in range(3):
            h4=shake(p,b'\x04'+seeds[t][j],p.dig)
            com.append(shake(p,b'\x00'+h4+ish[j]+bytes(views[j])+osh[j],p.dig))
        G=None
        if p.ur:
            G=[]
            for j in range(3):
                h5=shake(p,b'\x05'+seeds[t][j],p.dig)
                outlen=p.view+p.ios+(p.ios if j==2 else 0)
                G.append(shake(p,h5+(ish[j] if j==2 else b'')+bytes(views[j])+le16(outlen),outlen))
        rounds.append((ish,views,osh,com,G))
    data=b'\x01'+b''.join(b''.join(r[2]) for r in rounds)+b''.join(b''.join(r[3]) for r in rounds)
    if p.ur: data+=b''.join(b''.join(r[4]) for r in rounds)
    data+=Cc+pt+salt+msg
    h=shake(p,data,p.dig); ch=[]
    while len(ch)<T:
        for byte in h:
            for j in (6,4,2,0):
                v=(byte>>j)&3
                if v<3 and len(ch)<T: ch.append(v)
        h=shake(p,b'\x01'+h,p.dig)
    # serialize
    chb=bytearray((2*T+7)//8)
    for t,e in enumerate(ch):
        # bit 2t = e&1 ; bit 2t+1 = (e>>1)&1
        for k,bit in ((2*t,e&1),(2*t+1,(e>>1)&1)):
            if bit: chb[k//8]|=1<<(7-k%8)
    out=bytes(chb)+salt
    for t,e in enumerate(ch):
        ish,views,osh,com,G=rounds[t]
        out+=com[(e+2)%3]
        if p.ur:
            g=G[(e+2)%3]; out+=g
        out+=bytes(views[(e+1)%3])+seeds[t][e]+seeds[t][(e+1)%3]
        if e!=0: out+=ish[2]
    return out
for name in sys.argv[1:]:
    p=params(name); d=kat('/repo/tests/kat_%s.txt'%name); skb=bytes.fromhex(d['sk']); msg=bytes.fromhex(d['msg']); sm=bytes.fromhex(d['sm'])
    sk=skb[1:1+p.ios]; Cc=skb[1+p.ios:1+2*p.ios]; pt=skb[1+2*p.ios:1+3*p.ios]
    ref=sm[4+len(msg):]
    sig=sign(p,sk,Cc,pt,msg,name)
    print(name,'len',len(sig),len(ref),'MATCH' if sig==ref else 'differ at %d'%next((i for i in range(min(len(sig),len(ref))) if sig[i]!=ref[i]),-1))
