/* probe: EVERY single-bit flip of one valid signature must be rejected (C02), sharded over processes */
#include <picnic.h>
#include <stdio.h>
#include <stdlib.h>
#include <string.h>
#include <sys/random.h>
static unsigned char st=7; ssize_t __wrap_getrandom(void*b,size_t n,unsigned f){ unsigned char*p=b; for(size_t i=0;i<n;i++){st=st*73+11;p[i]=st;} return n; }
int main(int argc,char**argv){ int p=atoi(argv[1]); int shard=atoi(argv[2]), nsh=atoi(argv[3]);
  picnic_publickey_t pk; picnic_privatekey_t sk; picnic_keygen(p,&pk,&sk); size_t max=picnic_signature_size(p); uint8_t*sig=malloc(max); size_t len=max; uint8_t msg[77]; memset(msg,0x3c,77);
  if(picnic_sign(&sk,msg,77,sig,&len)||picnic_verify(&pk,msg,77,sig,len)) return 2;
  long acc=0,n=0; for(size_t bit=shard; bit<len*8; bit+=nsh){ sig[bit/8]^=1<<(bit%8); if(picnic_verify(&pk,msg,77,sig,len)==0){acc++; printf("ACCEPTED p=%d bit=%zu\n",p,bit);} sig[bit/8]^=1<<(bit%8); n++; }
  /* message and pk flips, truncations, extensions on shard 0 */
  if(shard==0){ for(size_t bit=0;bit<77*8;bit++){ msg[bit/8]^=1<<(bit%8); if(!picnic_verify(&pk,msg,77,sig,len)){acc++;printf("ACCEPTED msgbit %zu\n",bit);} msg[bit/8]^=1<<(bit%8); n++; }
    size_t pks=picnic_get_public_key_size(p); for(size_t bit=0;bit<pks*8;bit++){ pk.data[bit/8]^=1<<(bit%8); if(!picnic_verify(&pk,msg,77,sig,len)){acc++;printf("ACCEPTED pkbit %zu\n",bit);} pk.data[bit/8]^=1<<(bit%8); n++; }
    for(size_t tl=1;tl<len;tl+= (tl<300||tl>len-300)?1:97){ if(!picnic_verify(&pk,msg,77,sig,tl)){acc++;printf("ACCEPTED trunc %zu\n",tl);} n++; }
    uint8_t*e=malloc(len+300); memcpy(e,sig,len); memset(e+len,0,300); for(size_t x=1;x<=300;x++){ if(!picnic_verify(&pk,msg,77,e,len+x)){acc++;printf("ACCEPTED ext %zu\n",x);} n++; }
    for(int q=1;q<13;q++) if(q!=p){ picnic_publickey_t pk2; picnic_privatekey_t sk2; picnic_keygen(q,&pk2,&sk2); if(!picnic_verify(&pk2,msg,77,sig,len)){acc++;printf("ACCEPTED under param %d\n",q);} picnic_publickey_t pk3=pk; pk3.data[0]=q; if(!picnic_verify(&pk3,msg,77,sig,len)){acc++;printf("ACCEPTED relabelled param %d\n",q);} n+=2; }
  }
  printf("p=%d shard=%d len=%zu checked=%ld accepted=%ld\n",p,shard,len,n,acc); return acc!=0; }
