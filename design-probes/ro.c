/* probe: inputs in PROT_READ memory whose last byte abuts an unmapped page (C05/C06 CallerMem idea) */
#define _GNU_SOURCE
#include <picnic.h>
#include <stdio.h>
#include <stdlib.h>
#include <string.h>
#include <sys/mman.h>
static uint8_t* edge(const void*src,size_t n,int ro){ size_t pg=4096, tot=((n+pg-1)/pg+1)*pg; uint8_t*m=mmap(0,tot,PROT_READ|PROT_WRITE,MAP_PRIVATE|MAP_ANONYMOUS,-1,0); mprotect(m+tot-pg,pg,PROT_NONE); uint8_t*p=m+tot-pg-n; memcpy(p,src,n); if(ro) mprotect(m,tot-pg,PROT_READ); return p;}
int main(){
  for(int p=1;p<13;p++){
    picnic_publickey_t pk; picnic_privatekey_t sk; picnic_keygen(p,&pk,&sk);
    size_t max=picnic_signature_size(p); uint8_t*sig=malloc(max); size_t len=max; uint8_t msg[137]; memset(msg,9,137);
    picnic_sign(&sk,msg,137,sig,&len);
    uint8_t*rs=edge(sig,len,1),*rm=edge(msg,137,1); picnic_publickey_t*rpk=(void*)edge(&pk,sizeof pk,1);
    int v=picnic_verify(rpk,rm,137,rs,len);
    int bad=0; for(int k=0;k<40;k++){ uint8_t*c=malloc(len); memcpy(c,sig,len); c[(k*7919)%len]^=1<<(k%8); uint8_t*rc=edge(c,len,1); bad+= picnic_verify(rpk,rm,137,rc,len)==0; free(c);}
    for(size_t tl=1;tl<len;tl+=len/37+1){ uint8_t*rc=edge(sig,tl,1); bad+= picnic_verify(rpk,rm,137,rc,tl)==0; }
    picnic_privatekey_t*rsk=(void*)edge(&sk,sizeof sk,1); size_t l2=max; uint8_t*s2=malloc(max); int r=picnic_sign(rsk,rm,137,s2,&l2);
    printf("%-15s verify(ro,edge)=%d accepted_bad=%d sign(ro sk)=%d same=%d\n",picnic_get_param_name(p),v,bad,r,l2==len&&!memcmp(sig,s2,len));
  }
}
