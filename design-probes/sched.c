/* probe: real threads, one runnable at a time, parked/released at wrapped Keccak API calls and allocator calls.
   Two tasks sign different messages with one shared key; oracle = solo result. */
#define _GNU_SOURCE
#include <picnic.h>
#include <pthread.h>
#include <semaphore.h>
#include <stdio.h>
#include <stdlib.h>
#include <string.h>
#include <stdint.h>
#define NT 2
static sem_t sem[NT]; static __thread int me=-1; static int in_lib[NT]; static int done[NT];
static long ycount[NT]; static long preempt_at[NT][8]; static int npre[NT]; static uint64_t rs;
static uint64_t loghash=1469598103934665603ULL; static void logv(uint64_t v){ loghash=(loghash^v)*1099511628211ULL; }
static uint64_t rnd(){ rs+=0x9E3779B97F4A7C15ULL; uint64_t z=rs; z=(z^(z>>30))*0xBF58476D1CE4E5B9ULL; z=(z^(z>>27))*0x94D049BB133111EBULL; return z^(z>>31);} 
static long nswitch;
static void yield_point(void){
  if(me<0||!in_lib[me]) return; long c=++ycount[me];
  for(int i=0;i<npre[me];i++) if(preempt_at[me][i]==c){ int other=1-me; if(done[other]) return; nswitch++; logv(((uint64_t)me<<60)^c); sem_post(&sem[other]); sem_wait(&sem[me]); return; }
}
#define WRAPV(name,args,call) void __real_##name args; void __wrap_##name args { yield_point(); __real_##name call; }
typedef struct KH KH; typedef struct KH4 KH4;
int __real_Keccak_HashInitialize(KH*,unsigned,unsigned,unsigned,unsigned char); int __wrap_Keccak_HashInitialize(KH*a,unsigned b,unsigned c,unsigned d,unsigned char e){yield_point();return __real_Keccak_HashInitialize(a,b,c,d,e);} 
int __real_Keccak_HashUpdate(KH*,const uint8_t*,size_t); int __wrap_Keccak_HashUpdate(KH*a,const uint8_t*b,size_t c){yield_point();return __real_Keccak_HashUpdate(a,b,c);} 
int __real_Keccak_HashFinal(KH*,uint8_t*); int __wrap_Keccak_HashFinal(KH*a,uint8_t*b){yield_point();return __real_Keccak_HashFinal(a,b);} 
int __real_Keccak_HashSqueeze(KH*,uint8_t*,size_t); int __wrap_Keccak_HashSqueeze(KH*a,uint8_t*b,size_t c){yield_point();return __real_Keccak_HashSqueeze(a,b,c);} 
int __real_Keccak_HashInitializetimes4(KH4*,unsigned,unsigned,unsigned,unsigned char); int __wrap_Keccak_HashInitializetimes4(KH4*a,unsigned b,unsigned c,unsigned d,unsigned char e){yield_point();return __real_Keccak_HashInitializetimes4(a,b,c,d,e);} 
int __real_Keccak_HashUpdatetimes4(KH4*,const uint8_t**,size_t); int __wrap_Keccak_HashUpdatetimes4(KH4*a,const uint8_t**b,size_t c){yield_point();return __real_Keccak_HashUpdatetimes4(a,b,c);} 
int __real_Keccak_HashFinaltimes4(KH4*,uint8_t**); int __wrap_Keccak_HashFinaltimes4(KH4*a,uint8_t**b){yield_point();return __real_Keccak_HashFinaltimes4(a,b);} 
int __real_Keccak_HashSqueezetimes4(KH4*,uint8_t**,size_t); int __wrap_Keccak_HashSqueezetimes4(KH4*a,uint8_t**b,size_t c){yield_point();return __real_Keccak_HashSqueezetimes4(a,b,c);} 
void* __real_malloc(size_t); void* __wrap_malloc(size_t n){yield_point();return __real_malloc(n);} 
void* __real_calloc(size_t,size_t); void* __wrap_calloc(size_t a,size_t b){yield_point();return __real_calloc(a,b);} 
void __real_free(void*); void __wrap_free(void*p){yield_point();__real_free(p);} 
static picnic_privatekey_t sk; static picnic_publickey_t pk; static int param; static size_t maxsig;
static uint8_t msgs[NT][64]; static uint8_t *out[NT]; static size_t outlen[NT]; static int rc[NT];
static void* task(void*a){ me=(int)(long)a; sem_wait(&sem[me]); in_lib[me]=1; outlen[me]=maxsig; rc[me]=picnic_sign(&sk,msgs[me],64,out[me],&outlen[me]); in_lib[me]=0; done[me]=1; int other=1-me; if(!done[other]) sem_post(&sem[other]); else sem_post(&sem[me]); return 0; }
static pthread_t th[NT];
static int run(uint64_t seed,int d,uint8_t solo[NT][70000],size_t sololen[NT],long total_yields,uint64_t*h){
  rs=seed; loghash=1469598103934665603ULL; nswitch=0;
  for(int t=0;t<NT;t++){ sem_init(&sem[t],0,0); ycount[t]=0; done[t]=0; in_lib[t]=0; npre[t]=d; for(int i=0;i<d;i++) preempt_at[t][i]=1+rnd()%total_yields; }
  for(long t=0;t<NT;t++) pthread_create(&th[t],0,task,(void*)t);
  sem_post(&sem[rnd()%NT]);
  for(int t=0;t<NT;t++) pthread_join(th[t],0);
  int bad=0; for(int t=0;t<NT;t++){ logv(rc[t]); logv(outlen[t]); for(size_t i=0;i<outlen[t];i+=97) logv(out[t][i]); if(rc[t]||outlen[t]!=sololen[t]||memcmp(out[t],solo[t],sololen[t])) bad=1; }
  *h=loghash; return bad;
}
int main(int argc,char**argv){
  param=argc>1?atoi(argv[1]):1; int runs=argc>2?atoi(argv[2]):300; int d=argc>3?atoi(argv[3]):1; uint64_t base=argc>4?strtoull(argv[4],0,10):1;
  picnic_keygen(param,&pk,&sk); maxsig=picnic_signature_size(param);
  static uint8_t solo[NT][70000]; size_t sololen[NT];
  for(int t=0;t<NT;t++){ memset(msgs[t],t+1,64); out[t]=malloc(maxsig); sololen[t]=maxsig; picnic_sign(&sk,msgs[t],64,solo[t],&sololen[t]); }
  /* measure yields of one op */ me=0; in_lib[0]=1; ycount[0]=0; npre[0]=0; size_t l=maxsig; picnic_sign(&sk,msgs[0],64,out[0],&l); long ty=ycount[0]; in_lib[0]=0; me=-1;
  int viol=0, nondet=0; long first=-1; long sw=0;
  for(int r=0;r<runs;r++){ uint64_t h1,h2; int b1=run(base*1000003+r,d,solo,sololen,ty,&h1); sw+=nswitch; int b2=run(base*1000003+r,d,solo,sololen,ty,&h2); if(h1!=h2||b1!=b2) nondet++; if(b1){viol++; if(first<0) first=r;} }
  printf("param=%d yields/op=%ld runs=%d d=%d violations=%d first_at_run=%ld nondeterministic_pairs=%d switches=%ld\n",param,ty,runs,d,viol,first,nondet,sw);
}
