#define _GNU_SOURCE
#include <picnic.h>
#include <stdio.h>
#include <stdlib.h>
#include <string.h>
#include <unistd.h>
#include <sys/wait.h>
static long n_alloc, fail_at=-1;
void* __real_malloc(size_t); void* __real_calloc(size_t,size_t); void* __real_realloc(void*,size_t); void* __real_aligned_alloc(size_t,size_t);
#define HIT() (n_alloc++==fail_at)
void* __wrap_malloc(size_t n){ if(HIT()) return NULL; return __real_malloc(n);}
void* __wrap_calloc(size_t a,size_t b){ if(HIT()) return NULL; return __real_calloc(a,b);}
void* __wrap_realloc(void*p,size_t n){ if(HIT()) return NULL; return __real_realloc(p,n);}
void* __wrap_aligned_alloc(size_t a,size_t n){ if(HIT()) return NULL; return __real_aligned_alloc(a,n);}
int main(int argc,char**argv){
  int stride=argc>1?atoi(argv[1]):1;
  for(int p=1;p<13;p++){
    picnic_publickey_t pk; picnic_privatekey_t sk; picnic_keygen(p,&pk,&sk);
    size_t max=picnic_signature_size(p); uint8_t*sig=__real_malloc(max),*bad=__real_malloc(max),*s2=__real_malloc(max); size_t len=max; uint8_t msg[64]; memset(msg,3,64);
    fail_at=-1; n_alloc=0; picnic_sign(&sk,msg,64,sig,&len); long ns=n_alloc;
    n_alloc=0; picnic_verify(&pk,msg,64,sig,len); long nv=n_alloc;
    memcpy(bad,sig,len); bad[len/2]^=4;
    long cnt[3][4]={{0}}; // op x {err, ok-correct, WRONG, crash}
    for(int op=0;op<3;op++){ long n = op==0?ns:nv;
      for(long k=0;k<n;k+= (n>50?stride:1)){
        pid_t c=fork();
        if(!c){ fail_at=k; n_alloc=0; int r; 
          if(op==0){ size_t l2=max; r=picnic_sign(&sk,msg,64,s2,&l2); if(r==0){ fail_at=-1; _exit(picnic_verify(&pk,msg,64,s2,l2)==0?1:2);} _exit(0);} 
          if(op==1){ r=picnic_verify(&pk,msg,64,sig,len); _exit(r==0?1:0);} 
          r=picnic_verify(&pk,msg,64,bad,len); _exit(r==0?2:0); }
        int st; waitpid(c,&st,0);
        if(WIFEXITED(st)) cnt[op][WEXITSTATUS(st)]++; else cnt[op][3]++;
      }
    }
    printf("%-15s allocs sign=%ld verify=%ld | sign: err=%ld ok=%ld WRONG=%ld crash=%ld | verify(valid): rej=%ld acc=%ld crash=%ld | verify(bad): rej=%ld WRONGACC=%ld crash=%ld\n",picnic_get_param_name(p),ns,nv,cnt[0][0],cnt[0][1],cnt[0][2],cnt[0][3],cnt[1][0],cnt[1][1],cnt[1][3],cnt[2][0],cnt[2][2],cnt[2][3]);
    fflush(stdout);
  }
}
