#!/bin/bash
# usage: try_patch.sh <patch.diff> <check id>...   apply a patch to /repo, run the quick checks, always undo it
set -u
HERE=$(cd "$(dirname "$0")/.." && pwd)
patch=$1; shift
if [ -n "$(git -C /repo status --porcelain --untracked-files=no)" ]; then echo "/repo not clean"; exit 2; fi
git -C /repo apply "$patch" || { echo "patch does not apply"; exit 2; }
trap 'git -C /repo checkout -- .' EXIT
for c in "$@"; do
  s=$(date +%s)
  out=$("$HERE/tools/check" "$c" --tier "${TIER:-quick}" 2>&1); rc=$?
  echo "== $(basename "$patch") check $c rc=$rc $(( $(date +%s) - s ))s"
  echo "$out" | grep -A3 "^VIOLATION\|MACHINERY" | cut -c1-400 | head -8
done
