#!/bin/bash
# usage: run_benign.sh <dir with b*.diff> [checks...]: every behaviour-preserving patch must leave every quick check at exit 0
set -u
HERE=$(cd "$(dirname "$0")/.." && pwd)
dir=$1; shift
checks=${@:-C01 C02 C03 C04 C05 C06 C07 C09 C10 C11 C12 C13 C14 C15 C16 C17 C18}
for d in "$dir"/b*.diff; do
  if [ -n "$(git -C /repo status --porcelain --untracked-files=no)" ]; then echo "/repo not clean"; exit 2; fi
  git -C /repo apply "$d" || { echo "$(basename $d): does not apply"; continue; }
  for c in $checks; do
    s=$(date +%s)
    out=$("$HERE/tools/check" "$c" --tier quick 2>&1); rc=$?
    echo "$(basename $d) $c rc=$rc $(( $(date +%s) - s ))s $( [ $rc -ne 0 ] && echo "$out" | grep -A2 "^VIOLATION\|MACHINERY" | tr '\n' ' ' | cut -c1-420)"
  done
  git -C /repo checkout -- .
done
echo "benign batch done"
