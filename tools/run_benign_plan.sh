#!/bin/bash
# usage: run_benign_plan.sh <dir> <plan file: "<patch stem> <checks...>" per line>
HERE=$(cd "$(dirname "$0")/.." && pwd)
while read -r stem checks; do
  [ -z "$stem" ] && continue
  d="$1/$stem.diff"
  if [ -n "$(git -C /repo status --porcelain --untracked-files=no)" ]; then echo "/repo not clean"; exit 2; fi
  git -C /repo apply "$d" || { echo "$stem: does not apply"; continue; }
  for c in $checks; do
    s=$(date +%s)
    out=$("$HERE/tools/check" "$c" --tier quick 2>&1); rc=$?
    echo "$stem $c rc=$rc $(( $(date +%s) - s ))s $( [ $rc -ne 0 ] && echo "$out" | grep -A2 "^VIOLATION\|MACHINERY" | tr '\n' ' ' | cut -c1-420)"
  done
  git -C /repo checkout -- .
done < "$2"
echo "benign plan done"
