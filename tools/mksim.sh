#!/bin/bash
# Build (if needed) the library variant from /repo's current working tree and link the simulator against it.
#   usage: mksim.sh <variant> [cmake args for cfg-*]   -> prints path of the simulator binary (last line)
#   exit codes as build.sh (3 = CMake rejected the configuration, 4 = accepted but does not compile), 5 = simulator link failed
set -u
HERE=$(cd "$(dirname "$0")/.." && pwd)
VB=${VERIF_BUILD:-$HERE/build}
variant=$1; shift
out=$("$HERE/tools/build.sh" "$variant" "$@"); rc=$?; D=$(echo "$out" | tail -1)
if [ "$rc" -ne 0 ]; then echo "$D"; exit "$rc"; fi
case "$variant" in
  # the harness itself is compiled with ASan only (the library carries UBSan); the UBSan runtime is linked in
  *asan*|cfg-*) flavor=asan; FF="-fsanitize=address -fno-omit-frame-pointer -O1 -g"; LF="-fsanitize=address,undefined" ;;
  tsan)         flavor=tsan; FF="-fsanitize=thread -fno-omit-frame-pointer -O1 -g"; LF="" ;;
  *)            flavor=plain; FF="-O2 -g"; LF="" ;;
esac
if [ "$variant" != "${variant#cfg-}" ] && [ -n "${VERIF_CFLAGS:-}" ] && ! echo "${VERIF_CFLAGS}" | grep -q fsanitize; then flavor=plain; FF="-O2 -g"; LF=""; fi
srcsig=$(cat "$HERE"/sim/*.cpp "$HERE"/sim/*.hpp "$HERE"/sim/*.h "$HERE"/sim/seams.c "$HERE"/model/model.cpp "$HERE"/model/model.hpp | sha256sum | cut -c1-12)
OD="$VB/simobj/$flavor-$srcsig"
mkdir -p "$VB/simobj"
exec 8>"$VB/simobj/.lock-$flavor"
flock 8
if [ ! -f "$OD/ok" ]; then
  rm -rf "$OD"; mkdir -p "$OD"
  ( cd "$VB/simobj" && ls -dt $flavor-* 2>/dev/null | tail -n +3 | xargs -r rm -rf )
  pids=()
  for f in "$HERE"/sim/*.cpp "$HERE"/model/model.cpp; do
    g++ -std=c++17 $FF -Wall -Wextra -Wno-unused-parameter -c "$f" -o "$OD/$(basename "$f" .cpp).o" 2> "$OD/$(basename "$f").log" &
    pids+=($!)
  done
  gcc -std=gnu11 $FF -Wall -c "$HERE/sim/seams.c" -o "$OD/seams.o" 2> "$OD/seams.log" &
  pids+=($!)
  fail=0
  for p in "${pids[@]}"; do wait "$p" || fail=1; done
  if [ $fail -ne 0 ]; then cat "$OD"/*.log >&2; echo "simulator compile failed" >&2; exit 5; fi
  touch "$OD/ok"
fi
flock -u 8
BIN="$D/sim"
if [ ! -x "$BIN" ] || [ "$(cat "$D/sim.sig" 2>/dev/null)" != "$srcsig" ]; then
  WRAPS="malloc calloc realloc aligned_alloc free getrandom cpu_supports KeccakP1600_Permute_24rounds KeccakP1600times4_PermuteAll_24rounds KeccakF1600_FastLoop_Absorb KeccakF1600times4_FastLoop_Absorb Keccak_HashInitialize Keccak_HashUpdate Keccak_HashFinal Keccak_HashSqueeze Keccak_HashInitializetimes4 Keccak_HashUpdatetimes4 Keccak_HashFinaltimes4 Keccak_HashSqueezetimes4 mzd_addmul_v_s256_129 mzd_addmul_v_s128_129 mzd_addmul_v_uint64_129 pthread_mutex_lock pthread_once call_once"
  W=""; for w in $WRAPS; do W="$W -Wl,--wrap=$w"; done
  g++ $FF $LF -no-pie "$OD"/*.o -Wl,--whole-archive "$D/b/static/libpicnic.a" "$D/libnist.a" -Wl,--no-whole-archive $W -lpthread -o "$BIN.tmp" 2> "$D/simlink.log" \
    || { cat "$D/simlink.log" >&2; echo "simulator link failed" >&2; exit 5; }
  mv "$BIN.tmp" "$BIN"; echo "$srcsig" > "$D/sim.sig"
fi
echo "$BIN"
