#!/usr/bin/env python3
"""Regenerates /verif/MANIFEST.json from one table (keeps ids, commands and evidence paths consistent)."""
import json, os, subprocess
HERE = os.path.dirname(os.path.dirname(os.path.abspath(__file__)))
TECH = "deterministic simulation with fault injection"
C = {
 "C01": ("exploration", "4 C01", "seeded simulation: signer and verifier nodes of different instruction-set families (AVX2/SSE2 via the cpu_supports seam, uint64 build) over a loss-free wire; edge-biased keys and message lengths, perturbed heap/stack, forced extreme challenges through the programmable-oracle hook; oracle = sign succeeds at the advertised size and every node and surface accepts",
         "sampled keys/messages; the AVX2/SSE2 split relies on the library's own WITHOUT_BUILTIN_CPU_SUPPORTS fallback; forced challenges rely on the PICNIC_VERIF hook"),
 "C02": ("exploration", "4 C02", "seeded simulation of a faulty wire between signer and verifier: bit flips (also targeted at padding bits and the challenge encoding located by the model's layout), truncation, extension, duplication, splice of two frames, torn write over stale contents, message/signature re-pairing, misrouting to every other parameter set, key and message bit flips, well-formed garbage (challenge kept, every other field re-rolled; all-zero signature) and near-miss public keys (a model-made signature for a key whose ciphertext bit is wrong); an altered delivery must be rejected and the intact one (also a model-made signature) accepted in the same run; thorough enumerates the complete single-bit neighbourhood of one signature per L1 family",
         "any accepted altered triple is reported: forging a different valid signature is assumed infeasible, so acceptance can only be verifier laxness"),
 "C03": ("exploration", "4 C03", "seeded simulated histories: the same (key, message) signed at several points of a run (first, after other parameter sets, after failed and faulted calls, other node/surface, perturbed heap and stack) and in sibling builds (uint64, avx2/plain32 Keccak); every signature must equal the independent reference model byte for byte and the solo execution of the same call",
         "the reference model, pinned to the 12 KAT vectors and to hashlib, defines the specification for other inputs"),
 "C04": ("exploration", "4 C04", "the same seeded plan executed on six (build, CPU-capability word) nodes: simd@AVX2, simd@SSE2, uint64, avx2-Keccak, plain32-Keccak@SSE2, plain32+uint64; per-operation result digests (return value, lengths, output bytes) must equal the reference node line by line, on fault-free and wire-faulted operations alike, and the reference model",
         "kernel-level arbitrary-operand equivalence is not claimed; kernels are reached through API paths only"),
 "C05": ("exploration", "4 C05", "seeded hostile deliveries to verifier, importer and opener in ASan/UBSan builds: arbitrary bytes of every length 0..max+64 (strided), field-aware edits, well-formed garbage (re-rolled fields, all-zero signatures, LE32(L)||zeros frames around the length window), arbitrary in-memory public keys, all 256 parameter bytes, malformed NIST frames; every input exact-size against an unmapped page and in a read-only mapping; perturbed heap/stack; oracles: no sanitizer report or signal, const inputs unchanged, return within 4x the honest hash-work budget (Keccak step clock) and a CPU watchdog",
         "-fsanitize=alignment excluded (XKCP by design); the step clock only sees hashing work, a loop without hashing is caught by the CPU-time watchdog"),
 "C06": ("exploration", "4 C06", "capacity as a fault: sign and key export with declared capacities 0, 1, header-1, needed-1, needed, needed+1, max-1, max, max+1 and random; the buffer ends at an unmapped page when smaller than the maximum, canaries otherwise; oracle: error below needed, success at max, exact reported length, untouched tail",
         "needed = length of the library's own full-capacity signature of the same input"),
 "C07": ("fault_enumeration", "4 C07", "scripted entropy source behind getrandom: zero/one streams, every unit stream over all consumable bit positions, random streams; every failure point (request 0..3 x error EAGAIN/EINTR/ENOSYS, short reads) through all three API surfaces; oracle is order- and request-count agnostic: sk and pt are disjoint n-bit windows of the delivered bytes, C = model LowMC, pair validates, failure => non-zero return",
         "enumeration is complete over failure points and delivered-bit positions; random streams sampled"),
 "C09": ("exploration", "4 C09", "wire monitor: every signature (hash-derived and forced challenges covering every ZKB++ challenge value and every KKW hidden-party index) and the whole buffer the call hands back is scanned for the byte strings the model knows must stay hidden (unopened seeds and views, third input share, ancestors of hidden leaves in both seed trees, secret key); the salt is tested against derivations keyed with public values instead of the secret key; the signature must verify",
         "absence is tested by byte-aligned substring search for >=16-byte pseudorandom strings"),
 "C10": ("exploration", "4 C10", "LowMC through sk_to_pk / validate_keypair on AVX2, SSE2 and uint64 nodes and both surfaces with zero, one, every unit, weight-2 and random key/plaintext patterns; bulk operations of 12k/150k evaluations each (6e6 quick, 6e8 thorough) against the model; oracle = plain LowMC with constants regenerated from the public Grain-LFSR generator; recording variant and inverse matrices are covered through model-compared signatures and through the signer's own consistency check at volume",
         "sampled operands; exhaustive comparison of stored constant tables is not a simulation result and is not claimed"),
 "C11": ("fault_enumeration", "4 C11", "simulated key store: export then import with disk faults enumerated completely: all 256 parameter bytes x every buffer length 0..size+2 x both key kinds x both surfaces, every non-zero padding pattern per field, foreign parameter bytes; oracle from the key codec model (accept iff enabled, long enough, padding zero; round trip identity; size/parameter queries = documented constants)",
         "key contents and joint padding patterns are sampled"),
 "C12": ("fault_enumeration", "4 C12", "stored-key bit rot: every single-bit corruption of the 3n meaningful key bits and the parameter byte (complete in thorough, strided + field ends in quick), random multi-bit corruptions and parameter-byte rewrites, handed to sign through all three surfaces; expected verdict from the model's LowMC; refusal must leave the output buffer untouched",
         "verdict computed on the meaningful bits; cases consistent except for padding bits are skipped"),
 "C13": ("exploration", "4 C13", "programmable random oracle: the signer is driven to the size model's arg-max challenges (all-non-zero ZKB++ vectors, the DP's worst KKW opened set, clustered/spread/boundary sets, every hidden-party rule) into a buffer of exactly the advertised size against a guard page; length must equal the size model, Unruh lengths the constant, and the true maximum (closed form / exact DP) must not exceed the advertised size for all 256 parameter values",
         "needs the PICNIC_VERIF hooks; without them degrades to the size table + sampled len <= max and says so"),
 "C14": ("exploration", "4 C14", "stream fragmentation schedules fed to the hashing layer (single and x4 lanes, all update/squeeze helper variants, prefix init) in the opt64, avx2 and plain32 builds, with cuts on and around the sponge rate; oracle = model SHAKE one-shot per lane; thorough enumerates every input length 0..3*rate+1 x every two-way split",
         "uses a shim compiled against the snapshot's kdf_shake.h with the library's own flags"),
 "C15": ("exploration", "4 C15", "2-8 client tasks (real threads, exactly one runnable, parked and released at intercepted allocator/entropy/CPU/Keccak calls) issue mixed API calls on shared read-only keys under PCT-style seeded preemption, perturbed heap (fill + scribble on free) and stack, per-task entropy; oracle: every result equals the execution of the same call alone in a process without call history (pristine solo server); failures that depend on earlier runs of a worker are reproduced as a minimised call history; secondary non-replayable mode: same plans free-running under ThreadSanitizer",
         "interleavings are explored at the granularity of intercepted calls; the TSan mode covers data races between them"),
 "C16": ("exploration", "4 C16", "three kinds of client (generic, per-parameter, NIST-style): same entropy gives the same key through all surfaces, signed message = LE32(len)||msg||sig with sig identical to picnic_sign, open with disjoint/in-place/shifted/inside buffers on intact frames and on truncated, re-prefixed, flipped, extended and arbitrary frames, all against guard pages under ASan",
         "the 12 crypto_sign.c instances are compiled side by side with renamed entry points"),
 "C17": ("exploration", "4 C17", "the same seeded mixed simulation (completeness, wire faults, capacity boundary, corrupted key, forced extreme challenge, entropy fault, import/export, NIST framing, heap/stack perturbation) run in every configuration of a lattice over the documented switches (14 quick / 44 thorough, every LowMC instance alone, the largest instances removed one after the other), each built by the project's own CMake under ASan/UBSan; digests of enabled parameter sets must equal the full build line by line, all 256 parameter values must be refused where disabled, and a configuration CMake accepts must compile",
         "a configuration CMake rejects with its own FATAL_ERROR is not a violation"),
 "C18": ("fault_enumeration", "4 C18", "allocation-failure enumeration: the k-th allocation of sign, verify (valid / one flipped bit / truncated) and keygen returns NULL for every k (complete in thorough), invalid signatures whose single defect sits in each kind of field in turn, sampled double failures; each faulted call runs in a forked child; oracle: success only with a correct result; abnormal termination is counted, not a verdict",
         "abnormal termination is exempt as the property states"),
}
checks = []
for pid, (lvl, ref, text, note) in sorted(C.items()):
    checks.append(dict(property_id=pid, quick_cmd="tools/check %s --tier quick" % pid, thorough_cmd="tools/check %s --tier thorough" % pid,
                       evidence_file="/verif/evidence/%s.json" % pid, replay_cmd_template="tools/check %s --replay {path}" % pid, engine="picnic-dst",
                       level_claimed=dict(category=lvl, text=text, design_ref="DESIGN.md section " + ref), level_note=note, technique=TECH))
def commits():
    try:
        out = subprocess.run(["git", "-C", "/repo", "log", "--format=%H %s"], stdout=subprocess.PIPE, text=True).stdout.splitlines()
        return [l.split()[0] for l in out if " verif hook:" in l]
    except Exception:
        return []
m = dict(
 version=1,
 setup_cmd="tools/setup.sh",
 hooks=dict(guard="PICNIC_VERIF", enable="tools/build.sh adds -DPICNIC_VERIF to CMAKE_C_FLAGS of every library variant it builds from the snapshot of /repo's working tree",
            baseline_off_cmd="tools/baseline_off.sh", source_commits=commits(), add_only=True),
 engines=[dict(name="picnic-dst", path="/verif/sim", serves_properties=sorted(C), kind_free_text="deterministic simulator: seeded plans of operations with attached faults, link-time seams (heap, entropy, CPU, Keccak step clock), serialising thread scheduler, independent reference model as oracle, delta-debugging minimiser, replay gate")],
 checks=checks,
 notes="Exit 2 from a check means the machinery itself is unfit (oracle not pinned, build failed, violation not reproducible) and nothing is asserted. Known findings: /verif/known_findings.txt.",
 not_applicable=[dict(property_id="C08", reason="secret-independence of the instruction/address trace is a 2-safety property of one execution as a function of the key; it has no schedule, fault, clock or environment choice for a simulator to own, and deciding it needs taint tracking (a different technique)")],
)
json.dump(m, open(os.path.join(HERE, "MANIFEST.json"), "w"), indent=1)
print("MANIFEST.json written: %d checks" % len(checks))
