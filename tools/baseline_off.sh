#!/bin/bash
# MANIFEST.hooks.baseline_off_cmd: the repository's own test suite with the PICNIC_VERIF guard OFF (the shipped
# configuration), built from a scratch copy of /repo's current working tree so that nothing under /repo is touched.
set -u
HERE=$(cd "$(dirname "$0")/.." && pwd)
B="$HERE/build/baseline-off"
rm -rf "$B"; mkdir -p "$B"
rsync -a --exclude _build --exclude .git /repo/ "$B/src/"
cmake -G Ninja -S "$B/src" -B "$B/b" -DCMAKE_C_FLAGS=-Wno-error -DCMAKE_CXX_FLAGS=-Wno-error -DWITH_VALGRIND_CT_TESTS=ON > "$B/configure.log" 2>&1 || { tail -20 "$B/configure.log"; exit 1; }
cmake --build "$B/b" > "$B/build.log" 2>&1 || { tail -30 "$B/build.log"; exit 1; }
ctest --test-dir "$B/b" -j8 --timeout 900 --output-junit "$B/junit.xml" > "$B/ctest.log" 2>&1
tail -25 "$B/ctest.log"
python3 - "$B/junit.xml" <<'PY'
import sys, json, xml.etree.ElementTree as ET
base = json.load(open("/root/.vp/BASELINE.json"))
want = set(base["stable_pass"])
t = ET.parse(sys.argv[1]).getroot()
passed = set()
for tc in t.iter("testcase"):
    ok = tc.find("failure") is None and tc.find("error") is None and (tc.get("status") in (None, "run"))
    name = tc.get("name"); cls = tc.get("classname") or ""
    if ok:
        passed.add(name)
def norm(s):  # BASELINE ids look like "suite::case"
    a, _, b = s.partition("::"); return b if not a else (a if b == a else (a + "_" + b if b.startswith("_") else s))
missing = []
for w in sorted(want):
    a, _, b = w.partition("::")
    cands = {w, b, a, a + b, (a + "_" + b.lstrip("_")) if a else b}
    if not (cands & passed):
        missing.append(w)
print("baseline tests expected to pass: %d, missing/failed with the guard off: %d" % (len(want), len(missing)))
for m in missing[:20]: print("  NOT PASSING:", m)
sys.exit(1 if missing else 0)
PY
rc=$?
rm -rf "$B/b" "$B/src"
exit $rc
