#!/bin/bash
# MANIFEST.hooks.baseline_off_cmd: the repository's own test suite with the PICNIC_VERIF guard OFF (the shipped
# configuration), built from a scratch copy of /repo's current working tree so that nothing under /repo is touched.
set -u
HERE=$(cd "$(dirname "$0")/.." && pwd)
B="$HERE/build/baseline-off"
rm -rf "$B"; mkdir -p "$B"
rsync -a --exclude _build --exclude .git /repo/ "$B/src/"
cmake -G Ninja -S "$B/src" -B "$B/b" -DCMAKE_C_FLAGS=-Wno-error -DCMAKE_CXX_FLAGS=-Wno-error -DWITH_VALGRIND_CT_TESTS=ON > "$B/configure.log" 2>&1 || { tail -20 "$B/configure.log"; exit 1; }
cmake --build "$B/b" > "$B/build.log" 2>&1 || { tail -30 "$B/build.log"; exit 1; }
ctest --test-dir "$B/b" -j8 --timeout 900 --output-junit "$B/junit.xml" > "$B/ctest.log" 2>&1
tail -25 "$B/ctest.log"
python3 - "$B/ctest.log" <<'PY'
import sys, json, re
base = json.load(open("/root/.vp/BASELINE.json"))
allowed = set(x.split("::")[0] for x in base["always_fail"])      # the 12 api_* tests die with SIGILL under valgrind in the pinned baseline too
log = open(sys.argv[1]).read()
res = re.findall(r"Test\s+#\d+:\s+(\S+)\s+\.+\s*(Passed|\*\*\*\S+.*?)\s+[\d.]+ sec", log)
passed = {n for n, r in res if r == "Passed"}
failed = {n for n, r in res if r != "Passed"}
# every ctest target behind the 91 stable baseline cases must pass (the ::-suffixed ids are sub-cases of these targets)
need = set()
for x in base["stable_pass"]:
    a, _, b = x.partition("::")
    need.add(a if a else "picnic")
alias = {"sign_verify": "picnic_L1_FS", "test_keys": "picnic_L1_FS", "read_write": "picnic_L1_FS", "multiple_messages": "picnic_L1_FS", "modified_signature": "picnic_L1_FS", "modified_public_key": "picnic_L1_FS"}
unexpected = sorted(failed - allowed)
print("ctest: %d passed, %d failed (%d of them are the api_* tests that also fail in the pinned baseline)" % (len(passed), len(failed), len(failed & allowed)))
for u in unexpected: print("  UNEXPECTED FAILURE:", u)
ok = not unexpected and len(passed) >= 30
print("baseline with the guard off:", "matches BASELINE.json" if ok else "DOES NOT MATCH")
sys.exit(0 if ok else 1)
PY
rc=$?
rm -rf "$B/b" "$B/src"
exit $rc
