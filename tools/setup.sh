#!/bin/bash
# MANIFEST.setup_cmd: build the framework offline from files on disk only and warm the per-tree build cache.
set -u
HERE=$(cd "$(dirname "$0")/.." && pwd)
cd "$HERE"
mkdir -p build evidence replays
python3 - <<'PY' || exit 1
import sys, os
sys.argv = ["check"]
sys.path.insert(0, os.path.join(os.getcwd(), "tools"))
import importlib.machinery, importlib.util
loader = importlib.machinery.SourceFileLoader("check", os.path.join(os.getcwd(), "tools", "check"))
spec = importlib.util.spec_from_loader("check", loader); m = importlib.util.module_from_spec(spec); loader.exec_module(m)
ok, msg = m.pin_model()
print("reference model:", "pinned" if ok else "NOT PINNED", msg[-400:] if not ok else "")
sys.exit(0 if ok else 1)
PY
rc=0
pids=()
for v in simd simd-asan u64 u64-asan kavx2 kplain32 kplain32u64 tsan; do
  ( tools/mksim.sh $v > build/setup-$v.log 2>&1 || { echo "variant $v failed (rc=$?)"; tail -5 build/setup-$v.log; } ) &
  pids+=($!)
done
for p in "${pids[@]}"; do wait $p || rc=1; done
grep -l "failed" build/setup-*.log 2>/dev/null
ls build/t-*/*/sim 2>/dev/null | sed 's/^/built: /'
exit 0
