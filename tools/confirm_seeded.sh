#!/bin/bash
# Confirm a candidate seeded change in a scratch worktree (never in /repo):
#   confirm_seeded.sh <dir with patch.diff> <worktree> '<demo command using {SRC} and {NOLTO} and {BUILD} and {ASAN}>'
# 1. patch applies, default configuration builds, the 30 non-api ctest targets pass with the patch
# 2. the demonstration exits non-zero with the patch and zero without it
# Writes <dir>/confirm.log and prints a one-line verdict.
set -u
DIR=$1; WT=$2; DEMO=$3
LOG="$DIR/confirm.log"; : > "$LOG"
cd "$WT" || exit 2
git checkout -q -- . ; rm -rf _build _nolto _asan
run_demo() { local c=${DEMO//\{SRC\}/$WT}; c=${c//\{NOLTO\}/$WT/_nolto}; c=${c//\{BUILD\}/$WT/_build}; c=${c//\{ASAN\}/$WT/_asan}; ( cd "$DIR" && timeout 1800 bash -c "$c" ) >> "$LOG" 2>&1; }
build_aux() {
  rm -rf _nolto _asan
  cmake -G Ninja -S . -B _nolto -DWITH_LTO=OFF -DCMAKE_C_FLAGS=-Wno-error -DCMAKE_CXX_FLAGS=-Wno-error >> "$LOG" 2>&1 && cmake --build _nolto --target picnic_static >> "$LOG" 2>&1 || return 1
  if [[ "$DEMO" == *"{ASAN}"* ]]; then
    cmake -G Ninja -S . -B _asan -DCMAKE_C_FLAGS="-fsanitize=address -g -Wno-error" -DWITH_LTO=OFF -DWITH_MARCH_NATIVE=OFF -DWITH_EXTENDED_TESTS=OFF -DWITH_KATS_TESTS=OFF >> "$LOG" 2>&1 && cmake --build _asan --target picnic_static >> "$LOG" 2>&1 || return 1
  fi
}
git apply "$DIR/patch.diff" >> "$LOG" 2>&1 || { echo "$(basename $DIR): PATCH DOES NOT APPLY"; exit 1; }
echo "== with patch: default build + ctest" >> "$LOG"
cmake -G Ninja -S . -B _build -DCMAKE_C_FLAGS=-Wno-error -DCMAKE_CXX_FLAGS=-Wno-error >> "$LOG" 2>&1 && cmake --build _build >> "$LOG" 2>&1 || { echo "$(basename $DIR): DOES NOT BUILD WITH PATCH"; git checkout -q -- .; exit 1; }
ctest --test-dir _build -j8 --timeout 900 > "$DIR/ctest_with_patch.log" 2>&1
unexpected=$(grep -E "^\s*[0-9]+ - " "$DIR/ctest_with_patch.log" | grep -v " - api_" | wc -l)
passed=$(grep -c "Passed" "$DIR/ctest_with_patch.log")
echo "ctest with patch: passed=$passed unexpected_failures=$unexpected" >> "$LOG"
build_aux || { echo "$(basename $DIR): AUX BUILD FAILED"; git checkout -q -- .; exit 1; }
echo "== demo with patch" >> "$LOG"; run_demo; rc_with=$?
git checkout -q -- .
build_aux || { echo "$(basename $DIR): AUX BUILD FAILED (clean)"; exit 1; }
if [[ "$DEMO" == *"{BUILD}"* ]]; then cmake --build _build >> "$LOG" 2>&1; fi
echo "== demo without patch" >> "$LOG"; run_demo; rc_without=$?
rm -rf _build _nolto _asan
verdict="REJECTED"
if [ "$unexpected" -eq 0 ] && [ "$passed" -ge 30 ] && [ "$rc_with" -ne 0 ] && [ "$rc_without" -eq 0 ]; then verdict="CONFIRMED"; fi
echo "$(basename $DIR): $verdict (tests passed=$passed unexpected=$unexpected, demo rc with patch=$rc_with, without=$rc_without)" | tee -a "$LOG"
