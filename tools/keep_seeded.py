#!/usr/bin/env python3
"""Book-keeping for a seeded change received from a sub-agent (developer tool, not a registered check).
   usage: keep_seeded.py <src dir> <id> <property> '<needs>' '<check>=<how caught>' ... [--history '<text>'] [--tier thorough]
   copies patch.diff/demo.c/build_demo.sh/README.txt to seeded/<id>/, writes meta.json and queues the confirmation."""
import json, os, shutil, sys
HERE = os.path.dirname(os.path.dirname(os.path.abspath(__file__)))
a = sys.argv[1:]
hist = None; tier = None
if "--history" in a:
    i = a.index("--history"); hist = a[i + 1]; del a[i:i + 2]
if "--tier" in a:
    i = a.index("--tier"); tier = a[i + 1]; del a[i:i + 2]
src, sid, prop, needs = a[:4]
caught = dict(x.split("=", 1) for x in a[4:])
d = os.path.join(HERE, "seeded", sid)
os.makedirs(d, exist_ok=True)
files = []
for f in ("README.txt", "build_demo.sh", "demo.c", "patch.diff"):
    if os.path.exists(os.path.join(src, f)):
        shutil.copy(os.path.join(src, f), os.path.join(d, f)); files.append(f)
for f in os.listdir(src):
    if f.startswith("demo") and f not in files and os.path.isfile(os.path.join(src, f)) and os.path.getsize(os.path.join(src, f)) < 200000:
        shutil.copy(os.path.join(src, f), os.path.join(d, f)); files.append(f)
meta = dict(id=sid, breaks_property=prop, expected_checks=sorted(caught), needs=needs, caught_by=caught, source="sub-agent, independent of /verif",
            confirmed="tools/confirm_seeded.sh in a scratch worktree: patch applies, default configuration builds, ctest passes, demonstration exits non-zero with the change and 0 without it; see confirm.log",
            ran="tools/try_patch.sh seeded/%s/patch.diff %s" % (sid, " ".join(sorted(caught))), files=sorted(files))
if hist: meta["history"] = hist
if tier: meta["expected_checks_tier"] = tier
json.dump(meta, open(os.path.join(d, "meta.json"), "w"), indent=1)
with open(os.path.join(HERE, "seeded", "queue.txt"), "a") as q:
    q.write("%s|chmod +x build_demo.sh; ./build_demo.sh {SRC}; rc=$?; rm -rf {SRC}/_demo_build*; exit $rc\n" % sid)
print("kept", d)
