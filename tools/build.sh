#!/bin/bash
# Build one library variant from a snapshot of /repo's CURRENT WORKING TREE with the project's own CMake.
#   usage: build.sh <variant> [extra -D cmake args ...]     (extra args only for cfg-* variants)
#   prints the variant directory on stdout (last line); exit 0 = built, 3 = CMake rejected the configuration
#   (its own FATAL_ERROR), 4 = CMake accepted it but the compilation failed (log in <dir>/build.log).
# Layout: $VB/t-<treehash>/<variant>/{src,b,libnist.a,ok}; builds are cached by tree hash + variant behind flock.
set -u
HERE=$(cd "$(dirname "$0")/.." && pwd)
VB=${VERIF_BUILD:-$HERE/build}
REPO=${VERIF_REPO:-/repo}
variant=$1; shift
mkdir -p "$VB"

treehash() {
  (cd "$REPO" && find . -type f -not -path './_build/*' -not -path './.git/*' -not -name '*.orig' -not -name '*.rej' -print0 \
     | LC_ALL=C sort -z | xargs -0 sha256sum | sha256sum | cut -c1-16)
}
TH=${VERIF_TREEHASH:-$(treehash)}
TD="$VB/t-$TH"
D="$TD/$variant"
argsig=$( (printf '%s\n' "$@" "${VERIF_CFLAGS:-}"; cat "$0" "$HERE"/sim/treeconsts.c "$HERE"/sim/nistconst.c "$HERE"/sim/shim_*.c 2>/dev/null) | sha256sum | cut -c1-8)
mkdir -p "$TD"
# keep at most the 3 most recently used tree directories
( cd "$VB" && ls -dt t-* 2>/dev/null | tail -n +4 | while read -r old; do [ "$old" != "t-$TH" ] && rm -rf "$old"; done ) 2>/dev/null
touch "$TD"

exec 9>"$TD/.lock-$variant"
flock 9
if [ -f "$D/ok" ] && [ "$(cat "$D/ok")" = "$argsig" ]; then echo "$D"; exit 0; fi
if [ -f "$D/failed" ] && [ "$(head -1 "$D/failed")" = "$argsig" ]; then echo "$D"; exit "$(sed -n 2p "$D/failed")"; fi
rm -rf "$D"; mkdir -p "$D"
rsync -a --exclude _build --exclude .git "$REPO"/ "$D/src/"

SAN_ASAN="-fsanitize=address,undefined -fno-sanitize=alignment -fno-sanitize-recover=all -fno-omit-frame-pointer"
CF="-DPICNIC_VERIF"
CM=(-DWITH_LTO=OFF -DWITH_MARCH_NATIVE=OFF -DWITH_EXTENDED_TESTS=OFF -DWITH_KATS_TESTS=OFF)
case "$variant" in
  simd)          CF="$CF -DWITHOUT_BUILTIN_CPU_SUPPORTS" ;;
  simd-asan)     CF="$CF -DWITHOUT_BUILTIN_CPU_SUPPORTS $SAN_ASAN" ;;
  u64)           CM+=(-DWITH_SIMD_OPT=OFF) ;;
  u64-asan)      CM+=(-DWITH_SIMD_OPT=OFF); CF="$CF $SAN_ASAN" ;;
  kavx2)         CF="$CF -DWITHOUT_BUILTIN_CPU_SUPPORTS"; CM+=(-DWITH_SHA3_IMPL=avx2) ;;
  kplain32)      CF="$CF -DWITHOUT_BUILTIN_CPU_SUPPORTS"; CM+=(-DWITH_SHA3_IMPL=plain32) ;;
  kplain32u64)   CM+=(-DWITH_SHA3_IMPL=plain32 -DWITH_SIMD_OPT=OFF) ;;
  tsan)          CF="-fsanitize=thread -fno-omit-frame-pointer" ;;   # the shipped configuration: no hooks, compiler builtin CPU detection
  cfg-*)         CF="$CF ${VERIF_CFLAGS:-$SAN_ASAN}"; CM+=("$@") ;;
  *) echo "unknown variant $variant" >&2; exit 2 ;;
esac
echo "$CF" > "$D/cflags"
{
  echo "== cmake configure: ${CM[*]} CFLAGS=$CF"
  cmake -G Ninja -S "$D/src" -B "$D/b" -DCMAKE_C_FLAGS="$CF" -DCMAKE_CXX_FLAGS="$CF" "${CM[@]}"
} > "$D/build.log" 2>&1
rc=$?
if [ $rc -ne 0 ]; then
  if grep -q "CMake Error at CMakeLists.txt" "$D/build.log" && grep -qi "is required\|At least one" "$D/build.log"; then
    printf '%s\n3\n' "$argsig" > "$D/failed"; echo "$D"; exit 3
  fi
  printf '%s\n4\n' "$argsig" > "$D/failed"; echo "$D"; exit 4
fi
# library (the per-parameter sources are regenerated from the templates by the project's own rules)
{
  echo "== ninja picnic_static"
  ninja -C "$D/b" picnic_static
} >> "$D/build.log" 2>&1
if [ $? -ne 0 ]; then printf '%s\n4\n' "$argsig" > "$D/failed"; echo "$D"; exit 4; fi
LIB="$D/b/static/libpicnic.a"
[ -f "$LIB" ] || { printf '%s\n4\n' "$argsig" > "$D/failed"; echo "$D"; exit 4; }

# NIST-style instances: compile each enabled crypto_sign.c with renamed entry points so all coexist
defs=$(nm -g --defined-only "$LIB" 2>/dev/null | awk '{print $3}')
objs=()
i=0
for spec in picnic_L1_FS:picnic_l1_fs picnic_L1_UR:picnic_l1_ur picnic_L3_FS:picnic_l3_fs picnic_L3_UR:picnic_l3_ur picnic_L5_FS:picnic_l5_fs picnic_L5_UR:picnic_l5_ur picnic3_L1:picnic3_l1 picnic3_L3:picnic3_l3 picnic3_L5:picnic3_l5 picnic_L1_full:picnic_l1_full picnic_L3_full:picnic_l3_full picnic_L5_full:picnic_l5_full; do
  dir=${spec%%:*}; ln=${spec##*:}
  if echo "$defs" | grep -qx "${ln}_keygen"; then
    # same rule as CMakeLists.txt: a fresh build directory always regenerates crypto_sign.c from crypto_sign.c.in
    P=$(echo "$dir" | sed 's/^picnic/Picnic/')
    sed -n "s/PICNIC_INSTANCE/${P}/g;w $D/src/$dir/crypto_sign.c" "$D/src/crypto_sign.c.in"
    o="$D/nist_$ln.o"
    gcc -std=gnu11 -O2 -g $CF -DHAVE_CONFIG_H -DPICNIC_STATIC -I"$D/b" -I"$D/src" -I"$D/src/$dir" \
        -Dcrypto_sign_keypair=${ln}_nist_keypair -Dcrypto_sign_open=${ln}_nist_open -Dcrypto_sign=${ln}_nist_sign \
        -c "$D/src/$dir/crypto_sign.c" -o "$o" >> "$D/build.log" 2>&1 || { printf '%s\n4\n' "$argsig" > "$D/failed"; echo "$D"; exit 4; }
    objs+=("$o")
    gcc -std=gnu11 -O1 -include "$D/src/$dir/api.h" -DPFX=$ln -c "$HERE/sim/nistconst.c" -o "$D/nistconst_$ln.o" >> "$D/build.log" 2>&1 \
      && objs+=("$D/nistconst_$ln.o")
  fi
done
gcc -std=gnu11 -O1 -I"$D/src" -c "$HERE/sim/treeconsts.c" -o "$D/treeconsts.o" >> "$D/build.log" 2>&1 && objs+=("$D/treeconsts.o")
# optional component shims, compiled with the library's own flags (taken from compile_commands.json)
LIBCMD=$(python3 - "$D/b/compile_commands.json" <<'PY'
import json,sys,shlex
for e in json.load(open(sys.argv[1])):
    if 'picnic_static.dir' in e.get('command','') and e['file'].endswith('/picnic.c'):
        a=shlex.split(e['command']); out=[]; skip=False
        for i,x in enumerate(a[1:]):
            if skip: skip=False; continue
            if x in ('-o','-c'): skip=True; continue
            if x.startswith('-Werror') or x=='-fvisibility=hidden': continue
            out.append(shlex.quote(x))
        print(' '.join(out)); break
PY
)
echo "$LIBCMD" > "$D/libflags"
for shim in shim_hash shim_internal; do
  [ -f "$HERE/sim/$shim.c" ] || continue
  if eval gcc $LIBCMD -w -c "$HERE/sim/$shim.c" -o "$D/$shim.o" >> "$D/build.log" 2>&1; then objs+=("$D/$shim.o"); else echo "== optional $shim did not compile (scenario disabled)" >> "$D/build.log"; fi
done
rm -f "$D/libnist.a"
if [ ${#objs[@]} -gt 0 ]; then ar rcs "$D/libnist.a" "${objs[@]}"; else ar rcs "$D/libnist.a"; fi
echo "$argsig" > "$D/ok"
echo "$D"
exit 0
