// The simulated world as one operation sees it: its task's environment, statistics, helpers to derive
// explicit inputs (keys, messages) from a case and to call the library through any of the three surfaces.
#pragma once
#include "api.hpp"
#include "env.h"
#include "mem.hpp"
#include "util.hpp"
#include <functional>
#include <mutex>

namespace sim {

struct Stats {
  std::map<std::string, long> c;
  std::set<std::string> tuples; // distinct (param, family, op, fault kind, outcome) reached
  std::vector<std::string> notes;
  std::map<std::string, long> g; // gauges (merged by max)
  void hit(const std::string& k, long n = 1) { c[k] += n; }
  void gauge(const std::string& k, long v) {
    auto it = g.find(k);
    if (it == g.end() || it->second < v)
      g[k] = v;
  }
  void tuple(const std::string& t) { tuples.insert(t); }
  void merge(const Stats& o) {
    for (auto& p : o.c)
      c[p.first] += p.second;
    tuples.insert(o.tuples.begin(), o.tuples.end());
    for (auto& p : o.g)
      gauge(p.first, p.second);
  }
};

struct Settings {
  std::string variant = "simd";
  std::string node_override; // "", "avx2", "sse2": caps word forced for every library call (C04 sibling runs)
  bool cpu_seam = false;     // cpu_supports is wrapped and reachable in this build
  bool hooks = false;        // S10 hooks present
  bool forked = false;       // running inside an isolated child
  bool solo_pass = false;    // executing the solo-replay pass: environmental faults are stripped
  bool sanitizer = false;
  long op_cpu_seconds = 20;  // per-operation CPU watchdog (process CPU time; x3 under sanitizers)
  bool extra_randomness = false; // the build draws extra bytes from the random source while signing (ZKB++)
  std::string own_prefix;   // e.g. "C05.": a check reports only clauses of its own property (others are noted)
  unsigned enabled_mask = 0x1FFE; // parameter sets the configuration under test is expected to enable (bit id)
};
extern Settings G;

struct Outcome {
  std::string clause; // empty = every enabled oracle clause held
  std::string detail;
  uint64_t digest = 0;   // (rc, lengths, output bytes) — API-visible result only
  std::string summary;   // short text for the event log
  bool skipped = false;  // not applicable in this build (parameter set disabled, hook absent, ...)
  bool machinery = false; // the harness could not evaluate the op (exit 2, never a violation)
  std::vector<std::string> foreign; // oracle clauses of OTHER properties that did not hold (noted, never reported by this check)
  // returns true if the operation must stop evaluating its oracle
  bool fail(const std::string& c, const std::string& d);
};
// a clause that several properties state: reported under the running check's own property if it is one of `also`
std::string owned(const std::string& clause, std::initializer_list<const char*> also);
#define FAIL_STOP(cl, det)                                                                                             \
  do {                                                                                                                 \
    o.fail((cl), (det));                                                                                               \
    return;                                                                                                            \
  } while (0)
#define CHECK_FAIL(cl, det)                                                                                            \
  do {                                                                                                                 \
    if (o.fail((cl), (det)))                                                                                           \
      return;                                                                                                          \
  } while (0)

struct TaskCtx {
  int task = 0;
  SimEnv env;
  Stats* stats = nullptr;
  uint64_t perms_total = 0, yields_total = 0, libcalls = 0;
  std::string cur_op;
};

// ---- environment handling
void default_entropy(SimEnv* e); // WITH_EXTRA_RANDOMNESS builds: every call finds the same fixed entropy stream
bytes extra_randomness_bytes(const model::Params& p); // what such a build absorbs while signing (empty otherwise)
unsigned caps_for_node(const std::string& node); // "avx2" -> all, "sse2" -> no AVX2/BMI2
void configure_env(TaskCtx& t, const Case& c);    // reset env, apply the case's environmental faults
template <class F> auto libcall(TaskCtx& t, F&& f) -> decltype(f()) {
  t.libcalls++;
  sim_env_set(&t.env);
  uint64_t p0 = t.env.perms;
  long y0 = t.env.yields;
  long a0 = t.env.k_s256, b0 = t.env.k_s128, c0 = t.env.k_u64;
  auto r = f();
  sim_env_set(nullptr);
  if (t.stats) {
    if (t.env.k_s256 > a0)
      t.stats->hit("family.calls_reaching_s256_kernel");
    if (t.env.k_s128 > b0)
      t.stats->hit("family.calls_reaching_s128_kernel");
    if (t.env.k_u64 > c0)
      t.stats->hit("family.calls_reaching_uint64_kernel");
  }
  t.perms_total += t.env.perms - p0;
  t.yields_total += (uint64_t)(t.env.yields - y0);
  return r;
}
// a library call outside the simulated history (building honest inputs, fault-free probes): clean
// environment, never a yield point
template <class F> auto cleancall(F&& f) -> decltype(f()) {
  SimEnv* saved = sim_env_get();
  SimEnv e;
  sim_env_reset(&e, -1);
  e.rng_passthrough = 0;
  if (!G.node_override.empty())
    e.caps_mask = caps_for_node(G.node_override);
  default_entropy(&e);
  sim_env_set(&e);
  auto r = f();
  sim_env_set(saved);
  return r;
}
template <class F> auto cleancall_node(const std::string& node, F&& f) -> decltype(f()) {
  SimEnv* saved = sim_env_get();
  SimEnv e;
  sim_env_reset(&e, -1);
  e.caps_mask = caps_for_node(node);
  default_entropy(&e);
  sim_env_set(&e);
  auto r = f();
  sim_env_set(saved);
  return r;
}

// ---- explicit inputs from a case
model::Key key_from_case(const Case& c, const model::Params& p); // kpat/kseed/kbit or ksk/kpt
bytes msg_from_case(const Case& c);                               // mlen/mseed or mhex
void describe_key(Case& c, Rng& r, const model::Params& p);       // generator helper: draw a key description
void describe_msg(Case& c, Rng& r);                               // generator helper: edge-biased message

// ---- key structures
bytes generic_sk_struct(const model::Key& k); // sizeof(picnic_privatekey_t) bytes: serialised key, rest junk
bytes generic_pk_struct(const model::Key& k);
bytes param_sk_struct(const model::Key& k);   // sizeof(<param>_privatekey_t): sk||C||pt
bytes param_pk_struct(const model::Key& k);

// ---- uniform calls through a surface (0 generic, 1 per-parameter); the caller wraps them in libcall/cleancall
bool surface_available(int surf, int param);
int s_sign(int surf, const model::Key& k, const uint8_t* m, size_t ml, uint8_t* sig, size_t* siglen);
int s_verify(int surf, const model::Key& k, const uint8_t* m, size_t ml, const uint8_t* sig, size_t siglen);
size_t s_signature_size(int surf, int param);

// honest signature made by the library itself in a clean environment (cached; pure function of its inputs)
bool honest_signature(const model::Key& k, const bytes& msg, bytes& sig);
// model signature (cached)
const bytes& model_signature(const model::Key& k, const bytes& msg, model::Trace* tr = nullptr);

// forced challenge (S10): installs the override for the duration of a call
struct ForcedChallenge {
  bool active;
  explicit ForcedChallenge(const model::Challenge* ch);
  ~ForcedChallenge();
};
model::Challenge challenge_from_case(const Case& c, const model::Params& p); // "och" spec

// ---- operations
using OpFn = std::function<void(const Case&, TaskCtx&, Outcome&)>;
void register_ops(std::map<std::string, OpFn>& reg);
Outcome run_op(const Case& c, TaskCtx& t);
Case strip_env_faults(const Case& c);

extern const char* PARAM_FILES[13];
} // namespace sim
