// Plan execution: serialising scheduler over real threads, event log, solo-replay oracle, isolation in a child
// process, minimisation.
#pragma once
#include "world.hpp"

namespace sim {
struct Violation {
  int task = 0, idx = 0;
  std::string clause, detail;
};
struct RunResult {
  std::vector<Violation> v;
  bool machinery = false;
  std::string machinery_detail;
  uint64_t loghash = 0;
  uint64_t perms = 0, yields = 0;
  long switches = 0, ops = 0, skipped = 0, libcalls = 0;
  uint64_t sched_hash = 0; // hash of the decision sequence + operation kinds in flight (distinct interleavings)
  std::vector<std::string> log;
  std::vector<std::pair<std::string, uint64_t>> digests; // "t/idx op" -> digest
  std::vector<std::vector<long>> resolved_preempt;       // preemption points actually used (PCT draw resolved)
  bool crashed = false;                                   // isolated runs only
  std::string crash_desc;
  const Violation* first() const { return v.empty() ? nullptr : &v[0]; }
};
struct RunOpts {
  bool collect_log = false;
  bool solo_oracle = false;   // re-execute every operation alone and compare results (C15, C03 history)
  bool free_running = false;  // no baton: threads run freely (ThreadSanitizer mode)
  bool expect_digests = false; // compare against "expect" keys embedded in the plan (cross-build equality)
};
RunResult run_plan(const Plan& p, const RunOpts& ro, Stats* stats);
// run in a forked child; a crash, sanitizer report, exceeded step budget or watchdog becomes a violation of `prop`
RunResult run_plan_isolated(const Plan& p, const RunOpts& ro, Stats* stats);
RunOpts opts_for(const Plan& p);
void start_solo_server(); // fork the pristine solo-oracle server (call before the first library call, after settings are final)
void stop_solo_server();

// delta debugging restricted to one violation class
Plan shrink_plan(const Plan& p, const std::string& clause, int* reruns);

Plan gen_plan(const std::string& prop, const std::string& tier, uint64_t seed, uint64_t run);
uint64_t default_runs(const std::string& prop, const std::string& tier);
} // namespace sim
