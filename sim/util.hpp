// Simulator basics: keyed PRNG tree, hashing of event logs, cases (operations with attached faults), plans.
#pragma once
#include "../model/model.hpp"
#include <cstdint>
#include <initializer_list>
#include <map>
#include <set>
#include <sstream>
#include <string>
#include <vector>

namespace sim {
using model::bytes;

// ------------------------------------------------------------------ one integer decides everything
inline uint64_t mix64(uint64_t z) {
  z += 0x9E3779B97F4A7C15ULL;
  z = (z ^ (z >> 30)) * 0xBF58476D1CE4E5B9ULL;
  z = (z ^ (z >> 27)) * 0x94D049BB133111EBULL;
  return z ^ (z >> 31);
}
struct Rng {
  uint64_t s;
  explicit Rng(uint64_t seed = 0) : s(seed) {}
  uint64_t next() {
    s += 0x9E3779B97F4A7C15ULL;
    uint64_t z = s;
    z = (z ^ (z >> 30)) * 0xBF58476D1CE4E5B9ULL;
    z = (z ^ (z >> 27)) * 0x94D049BB133111EBULL;
    return z ^ (z >> 31);
  }
  uint64_t below(uint64_t n) { return n ? next() % n : 0; }
  int64_t range(int64_t lo, int64_t hi) { return lo + (int64_t)below((uint64_t)(hi - lo + 1)); } // inclusive
  bool chance(unsigned num, unsigned den) { return below(den) < num; }
  void fill(uint8_t* p, size_t n) {
    for (size_t i = 0; i < n; i++)
      p[i] = (uint8_t)(next() >> 56);
  }
  bytes take(size_t n) {
    bytes b(n);
    fill(b.data(), n);
    return b;
  }
  template <class T> const T& pick(const std::vector<T>& v) { return v[below(v.size())]; }
};
// keyed stream: rng(seed, path...) — deleting an operation or disabling a parameter set never shifts
// anybody else's draws
inline uint64_t strhash(const char* s) {
  uint64_t h = 1469598103934665603ULL;
  for (; *s; s++)
    h = (h ^ (uint8_t)*s) * 1099511628211ULL;
  return h;
}
inline Rng rng_for(uint64_t seed, std::initializer_list<uint64_t> path) {
  uint64_t h = mix64(seed ^ 0x5851F42D4C957F2DULL);
  for (uint64_t p : path)
    h = mix64(h ^ mix64(p));
  return Rng(h);
}

struct Fnv {
  uint64_t h = 1469598103934665603ULL;
  void u8(uint8_t b) { h = (h ^ b) * 1099511628211ULL; }
  void u64(uint64_t v) {
    for (int i = 0; i < 8; i++)
      u8((uint8_t)(v >> (8 * i)));
  }
  void buf(const uint8_t* p, size_t n) {
    for (size_t i = 0; i < n; i++)
      u8(p[i]);
  }
  void str(const std::string& s) {
    buf((const uint8_t*)s.data(), s.size());
    u8(0);
  }
};
inline uint64_t digest_of(int64_t rc, uint64_t len, const uint8_t* out, size_t n) {
  Fnv f;
  f.u64((uint64_t)rc);
  f.u64(len);
  if (out)
    f.buf(out, n);
  return f.h;
}
std::string hex64(uint64_t v);

// ------------------------------------------------------------------ a case: one operation + attached faults
struct Case {
  std::map<std::string, std::string> kv;
  bool has(const std::string& k) const { return kv.count(k) != 0; }
  std::string s(const std::string& k, const std::string& def = "") const {
    auto it = kv.find(k);
    return it == kv.end() ? def : it->second;
  }
  int64_t i(const std::string& k, int64_t def = 0) const {
    auto it = kv.find(k);
    return it == kv.end() ? def : std::stoll(it->second);
  }
  uint64_t u(const std::string& k, uint64_t def = 0) const {
    auto it = kv.find(k);
    return it == kv.end() ? def : std::stoull(it->second);
  }
  bytes hexv(const std::string& k) const { return model::unhex(s(k)); }
  Case& set(const std::string& k, const std::string& v) {
    kv[k] = v;
    return *this;
  }
  Case& set(const std::string& k, const char* v) {
    kv[k] = v;
    return *this;
  }
  Case& set(const std::string& k, int64_t v) {
    kv[k] = std::to_string(v);
    return *this;
  }
  Case& set(const std::string& k, int v) { return set(k, (int64_t)v); }
  Case& set(const std::string& k, long long v) { return set(k, (int64_t)v); }
  Case& set(const std::string& k, unsigned v) { return set(k, (int64_t)v); }
  Case& set(const std::string& k, size_t v) {
    kv[k] = std::to_string(v);
    return *this;
  }
  Case& setu(const std::string& k, uint64_t v) {
    kv[k] = std::to_string(v);
    return *this;
  }
  void erase(const std::string& k) { kv.erase(k); }
  std::string text() const; // "op=sign param=1 ..." (op first, then sorted)
  static Case parse(const std::string& line);
  std::string op() const { return s("op"); }
};

struct Plan {
  std::string prop;
  std::string variant; // informational: the build the plan was generated for / failed on
  std::string tier;
  uint64_t seed = 0, run = 0;
  std::vector<std::vector<Case>> tasks; // tasks[t] = operations of client task t, in program order
  std::vector<std::vector<long>> preempt; // per task: yield counts at which the task is preempted
  uint64_t sched_seed = 0;                // decides who runs next at a preemption / task end
  // filled in for replay files
  std::string clause, detail;
  std::string loghash;
  std::map<std::string, std::string> meta;
  size_t nops() const {
    size_t n = 0;
    for (auto& t : tasks)
      n += t.size();
    return n;
  }
  std::string text() const;
  static Plan parse(const std::string& text);
};

std::string json_escape(const std::string& s);
} // namespace sim
