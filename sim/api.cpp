#include "api.hpp"

#define W __attribute__((weak))
#define DECL(P)                                                                                                        \
  extern "C" {                                                                                                         \
  const char* P##_get_param_name(void) W;                                                                              \
  size_t P##_get_private_key_size(void) W;                                                                             \
  size_t P##_get_public_key_size(void) W;                                                                              \
  int P##_keygen(void*, void*) W;                                                                                      \
  int P##_sign(const void*, const uint8_t*, size_t, uint8_t*, size_t*) W;                                              \
  size_t P##_signature_size(void) W;                                                                                   \
  int P##_verify(const void*, const uint8_t*, size_t, const uint8_t*, size_t) W;                                       \
  int P##_write_public_key(const void*, uint8_t*, size_t) W;                                                           \
  int P##_read_public_key(void*, const uint8_t*, size_t) W;                                                            \
  int P##_write_private_key(const void*, uint8_t*, size_t) W;                                                          \
  int P##_read_private_key(void*, const uint8_t*, size_t) W;                                                           \
  int P##_validate_keypair(const void*, const void*) W;                                                                \
  void P##_clear_private_key(void*) W;                                                                                 \
  int P##_sk_to_pk(const void*, void*) W;                                                                              \
  int P##_nist_keypair(unsigned char*, unsigned char*) W;                                                              \
  int P##_nist_sign(unsigned char*, unsigned long long*, const unsigned char*, unsigned long long, const unsigned char*) W; \
  int P##_nist_open(unsigned char*, unsigned long long*, const unsigned char*, unsigned long long, const unsigned char*) W; \
  extern const unsigned long P##_nist_consts[3] W;                                                                     \
  }
DECL(picnic_l1_fs)
DECL(picnic_l1_ur)
DECL(picnic_l3_fs)
DECL(picnic_l3_ur)
DECL(picnic_l5_fs)
DECL(picnic_l5_ur)
DECL(picnic3_l1)
DECL(picnic3_l3)
DECL(picnic3_l5)
DECL(picnic_l1_full)
DECL(picnic_l3_full)
DECL(picnic_l5_full)

#define PROW(P)                                                                                                        \
  {P##_get_param_name, P##_get_private_key_size, P##_get_public_key_size, P##_keygen,           P##_sign,              \
   P##_signature_size, P##_verify,               P##_write_public_key,    P##_read_public_key,  P##_write_private_key, \
   P##_read_private_key, P##_validate_keypair,   P##_clear_private_key,   P##_sk_to_pk}
#define NROW(P) {P##_nist_keypair, P##_nist_sign, P##_nist_open, P##_nist_consts}

namespace sim {
static const ParamApi PAPI[13] = {{},
                                  PROW(picnic_l1_fs),
                                  PROW(picnic_l1_ur),
                                  PROW(picnic_l3_fs),
                                  PROW(picnic_l3_ur),
                                  PROW(picnic_l5_fs),
                                  PROW(picnic_l5_ur),
                                  PROW(picnic3_l1),
                                  PROW(picnic3_l3),
                                  PROW(picnic3_l5),
                                  PROW(picnic_l1_full),
                                  PROW(picnic_l3_full),
                                  PROW(picnic_l5_full)};
static const NistApi NAPI[13] = {{},
                                 NROW(picnic_l1_fs),
                                 NROW(picnic_l1_ur),
                                 NROW(picnic_l3_fs),
                                 NROW(picnic_l3_ur),
                                 NROW(picnic_l5_fs),
                                 NROW(picnic_l5_ur),
                                 NROW(picnic3_l1),
                                 NROW(picnic3_l3),
                                 NROW(picnic3_l5),
                                 NROW(picnic_l1_full),
                                 NROW(picnic_l3_full),
                                 NROW(picnic_l5_full)};
const ParamApi& param_api(int id) { return PAPI[(id >= 1 && id <= 12) ? id : 0]; }
const NistApi& nist_api(int id) { return NAPI[(id >= 1 && id <= 12) ? id : 0]; }
bool generic_enabled(int id) { return id >= 1 && id <= 12 && picnic_signature_size(id) != 0; }
} // namespace sim
