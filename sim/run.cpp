#include "run.hpp"
#include <algorithm>
#include <csignal>
#include <cstring>
#include <pthread.h>
#include <semaphore.h>
#include <sched.h>
#include <sys/time.h>
#include <sys/wait.h>
#include <unistd.h>

namespace sim {

// ------------------------------------------------------------------------------------------------ scheduler
namespace {
struct TaskState {
  pthread_t th;
  sem_t sem;
  bool done = false;
  long ycount = 0;
  size_t pi = 0;
  std::vector<long> pre;
  std::string curop = "-";
  int curidx = -1;
};
struct Sched {
  std::vector<TaskState> ts;
  Rng rng{0};
  Fnv dec;
  long switches = 0;
  sem_t main_sem;
  bool free_running = false;
  std::vector<std::string>* log = nullptr;
  Stats* stats = nullptr;
};
Sched* g_sched = nullptr;
int g_progress_fd = -1;

void switch_from(int me, bool finished) {
  Sched& s = *g_sched;
  std::vector<int> cand;
  for (size_t i = 0; i < s.ts.size(); i++)
    if (!s.ts[i].done && (int)i != me)
      cand.push_back((int)i);
  if (cand.empty()) {
    if (finished)
      sem_post(&s.main_sem);
    return;
  }
  int to = cand[s.rng.below(cand.size())];
  s.dec.u64((uint64_t)me);
  s.dec.u64((uint64_t)s.ts[me].ycount);
  s.dec.u64((uint64_t)to);
  for (auto& t : s.ts)
    s.dec.str(t.done ? "." : t.curop);
  if (!finished) {
    s.switches++;
    if (s.stats) {
      s.stats->hit("sched.preemptions");
      s.stats->hit("sched.preempt_inside." + s.ts[me].curop);
      if (s.ts[to].curidx >= 0 && s.ts[to].curop == s.ts[me].curop)
        s.stats->hit("sched.two_tasks_inside_same_op_kind");
    }
    if (s.log)
      s.log->push_back("  switch t" + std::to_string(me) + "@y" + std::to_string(s.ts[me].ycount) + " (in " + s.ts[me].curop + ") -> t" + std::to_string(to));
  }
  sem_post(&s.ts[to].sem);
  if (!finished)
    sem_wait(&s.ts[me].sem);
}
void yield_hook(SimEnv* e) {
  if (!g_sched || e->task < 0 || g_sched->free_running)
    return;
  TaskState& me = g_sched->ts[e->task];
  me.ycount++;
  if (me.pi < me.pre.size() && me.ycount >= me.pre[me.pi]) {
    me.pi++;
    switch_from(e->task, false);
  }
}
void wait_hook(SimEnv* e) {
  // the running task cannot proceed until a parked task releases something: hand the baton on (a scheduling decision like
  // any other: logged, seeded); with nobody else runnable just spin politely
  if (!g_sched || e->task < 0 || g_sched->free_running) {
    sched_yield();
    return;
  }
  if (g_sched->stats)
    g_sched->stats->hit("sched.cooperative_waits_on_library_synchronisation");
  g_sched->ts[e->task].ycount++;
  switch_from(e->task, false);
}
void budget_hook(SimEnv*) {
  const char m[] = "X budget\n";
  if (g_progress_fd >= 0)
    (void)!write(g_progress_fd, m, sizeof m - 1);
  _exit(78);
}
void watchdog_handler(int) {
  const char m[] = "X watchdog\n";
  if (g_progress_fd >= 0)
    (void)!write(g_progress_fd, m, sizeof m - 1);
  _exit(79);
}
void arm_watchdog(long seconds) {
  struct itimerval it;
  memset(&it, 0, sizeof it);
  it.it_value.tv_sec = seconds;
  setitimer(ITIMER_VIRTUAL, &it, nullptr);
}

struct Shared {
  const Plan* plan;
  RunOpts ro;
  RunResult* res;
  Stats* stats;
  std::mutex mu;
  Fnv loghash;
  std::vector<std::vector<Outcome>> outcomes;
};
Shared* g_sh = nullptr;

void exec_op(int task, int idx, TaskCtx& ctx) {
  Shared& sh = *g_sh;
  const Case& c = sh.plan->tasks[task][idx];
  if (g_progress_fd >= 0) {
    char b[64];
    int n = snprintf(b, sizeof b, "S %d %d\n", task, idx);
    (void)!write(g_progress_fd, b, n);
  }
  arm_watchdog(std::max<long>(G.op_cpu_seconds, (long)c.i("wd", 0))); // bulk operations declare their own CPU budget
  Outcome o = run_op(c, ctx);
  arm_watchdog(0);
  // cross-build equality is promised for what a configuration enables; operations addressing a parameter set that
  // is disabled here are judged by the refusal oracle only
  int64_t addressed = (c.op() == "sizes" || c.op() == "import") ? c.i("pb", 0) : c.i("param", 0);
  bool comparable = !(addressed >= 1 && addressed <= 12 && !((G.enabled_mask >> addressed) & 1));
  if (G.extra_randomness && (c.op() == "sign" || c.op() == "nist" || c.op() == "verify"))
    comparable = false; // signatures of this configuration are randomised by design: judged by the model fed the same bytes
  if (sh.ro.expect_digests && c.has("expect") && !o.skipped && o.clause.empty() && comparable) {
    if (hex64(o.digest) != c.s("expect"))
      o.fail(sh.plan->prop + ".differs_from_reference_build",
             "operation [" + c.op() + " " + c.s("param") + "] gives result digest " + hex64(o.digest) + " in " + G.variant + (G.node_override.empty() ? "" : "@" + G.node_override) +
                 " but " + c.s("expect") + " in the reference build (" + o.summary + ")");
  }
  std::lock_guard<std::mutex> lk(sh.mu);
  if (sh.stats)
    for (auto& fc : o.foreign)
      sh.stats->hit("observed_other_property." + fc);
  sh.outcomes[task][idx] = o;
  std::string line = "t" + std::to_string(task) + " #" + std::to_string(idx) + " " + c.op() + " " + (o.skipped ? "skipped" : o.summary) + " d=" + hex64(o.digest) +
                     (o.clause.empty() ? "" : " !! " + o.clause);
  sh.loghash.str(line);
  if (sh.ro.collect_log)
    sh.res->log.push_back(line);
  sh.res->ops++;
  if (o.skipped)
    sh.res->skipped++;
  sh.res->digests.push_back({std::to_string(task) + "/" + std::to_string(idx) + " " + c.op(), o.digest});
  if (o.machinery) {
    sh.res->machinery = true;
    sh.res->machinery_detail = o.clause + ": " + o.detail;
  } else if (!o.clause.empty())
    sh.res->v.push_back({task, idx, o.clause, o.detail});
}

void* task_main(void* arg) {
  int me = (int)(long)arg;
  Sched& s = *g_sched;
  Shared& sh = *g_sh;
  if (!s.free_running)
    sem_wait(&s.ts[me].sem);
  TaskCtx ctx;
  ctx.task = me;
  Stats local;
  ctx.stats = sh.stats ? &local : nullptr;
  const auto& ops = sh.plan->tasks[me];
  for (size_t i = 0; i < ops.size(); i++) {
    s.ts[me].curop = ops[i].op();
    s.ts[me].curidx = (int)i;
    if (!s.free_running) { // an operation boundary is a yield point too
      SimEnv be;
      sim_env_reset(&be, me);
      yield_hook(&be);
    }
    exec_op(me, (int)i, ctx);
  }
  {
    std::lock_guard<std::mutex> lk(sh.mu);
    if (sh.stats)
      sh.stats->merge(local);
    sh.res->perms += ctx.perms_total;
    sh.res->yields += ctx.yields_total;
    sh.res->libcalls += (long)ctx.libcalls;
  }
  s.ts[me].done = true;
  s.ts[me].curop = ".";
  if (!s.free_running)
    switch_from(me, true);
  return nullptr;
}
} // namespace


// ------------------------------------------------------------------------------------------------ pristine solo server
// The solo-replay oracle must be free of call history: "the same call alone" means alone in a process that has never
// called the library. A server process is forked before the first library call; for every request it forks a grandchild
// from its pristine state, which executes the one operation in a clean environment and reports the result.
namespace {
int g_srv_req = -1, g_srv_rsp = -1;
pid_t g_srv_pid = -1;
bool write_all(int fd, const std::string& d) {
  size_t off = 0;
  while (off < d.size()) {
    ssize_t w = write(fd, d.data() + off, d.size() - off);
    if (w <= 0)
      return false;
    off += (size_t)w;
  }
  return true;
}
bool read_line(int fd, std::string& line) {
  line.clear();
  char ch;
  for (;;) {
    ssize_t r = read(fd, &ch, 1);
    if (r <= 0)
      return false;
    if (ch == '\n')
      return true;
    line.push_back(ch);
  }
}
void server_loop(int req, int rsp) {
  std::string line;
  while (read_line(req, line)) {
    if (line == "QUIT")
      break;
    Case c = Case::parse(line);
    fflush(stdout);
    pid_t pid = fork();
    if (pid == 0) {
      signal(SIGVTALRM, watchdog_handler);
      G.solo_pass = true;
      G.forked = true;
      TaskCtx ctx;
      ctx.task = -2;
      arm_watchdog(std::max<long>(G.op_cpu_seconds, (long)c.i("wd", 0)));
      Outcome o = run_op(strip_env_faults(c), ctx);
      arm_watchdog(0);
      std::string sum = o.summary;
      for (auto& ch : sum)
        if (ch == '\n' || ch == '|')
          ch = ' ';
      std::string out = "R " + hex64(o.digest) + " " + std::to_string(o.skipped ? 1 : 0) + " " + std::to_string(o.clause.empty() ? 0 : 1) + " " +
                        std::to_string((long)ctx.yields_total) + " |" + sum + "\n";
      write_all(rsp, out);
      _exit(0);
    }
    int st = 0;
    waitpid(pid, &st, 0);
    if (!(WIFEXITED(st) && WEXITSTATUS(st) == 0))
      write_all(rsp, "X crashed\n");
    write_all(rsp, "END\n");
  }
  _exit(0);
}
} // namespace
void start_solo_server() {
  if (g_srv_pid > 0)
    return;
  int a[2], b[2];
  if (pipe(a) != 0 || pipe(b) != 0)
    return;
  fflush(stdout);
  fflush(stderr);
  pid_t pid = fork();
  if (pid == 0) {
    close(a[1]);
    close(b[0]);
    server_loop(a[0], b[1]);
  }
  close(a[0]);
  close(b[1]);
  g_srv_req = a[1];
  g_srv_rsp = b[0];
  g_srv_pid = pid;
}
void stop_solo_server() {
  if (g_srv_pid <= 0)
    return;
  write_all(g_srv_req, "QUIT\n");
  close(g_srv_req);
  close(g_srv_rsp);
  int st;
  waitpid(g_srv_pid, &st, 0);
  g_srv_pid = -1;
}
// returns false if no server is available (caller falls back to an in-process solo execution)
static bool solo_via_server(const Case& c, Outcome& o, long& yields) {
  if (g_srv_pid <= 0)
    return false;
  std::string line = c.text();
  for (auto& ch : line)
    if (ch == '\n')
      ch = ' ';
  if (!write_all(g_srv_req, line + "\n"))
    return false;
  bool got = false, crashed = false;
  std::string l;
  while (read_line(g_srv_rsp, l)) {
    if (l == "END")
      break;
    if (l.rfind("R ", 0) == 0) {
      char dg[32];
      int sk = 0, cl = 0;
      long y = 0;
      if (sscanf(l.c_str(), "R %31s %d %d %ld", dg, &sk, &cl, &y) == 4) {
        o.digest = std::stoull(dg, nullptr, 16);
        o.skipped = sk != 0;
        if (cl)
          o.clause = "(oracle clause failed in the solo execution too)";
        yields = y;
        auto bar = l.find('|');
        o.summary = bar == std::string::npos ? "" : l.substr(bar + 1);
        got = true;
      }
    } else if (l.rfind("X ", 0) == 0)
      crashed = true;
  }
  if (crashed || !got) {
    o.skipped = true; // the call does not even survive alone: the history run will report the crash itself
    o.summary = "solo execution crashed";
    yields = 1000;
  }
  return true;
}

RunOpts opts_for(const Plan& p) {
  RunOpts ro;
  ro.solo_oracle = p.meta.count("solo") && p.meta.at("solo") == "1";
  ro.free_running = p.meta.count("free") && p.meta.at("free") == "1";
  ro.expect_digests = p.meta.count("expect") && p.meta.at("expect") == "1";
  return ro;
}

RunResult run_plan(const Plan& pin, const RunOpts& ro, Stats* stats) {
  RunResult res;
  Plan p = pin;
  sim_yield_hook = yield_hook;
  sim_budget_hook = budget_hook;
  sim_wait_hook = wait_hook;
  signal(SIGVTALRM, watchdog_handler);
  // ---- solo pass first: every call alone, sequentially, in a clean environment. Its results are the oracle for the
  // simulated history, and its yield counts are what the PCT preemption points are drawn against.
  std::vector<std::vector<Outcome>> solo(p.tasks.size());
  std::vector<long> task_yields(p.tasks.size(), 0);
  if (ro.solo_oracle) {
    G.solo_pass = g_srv_pid <= 0;
    for (size_t t = 0; t < p.tasks.size(); t++)
      for (size_t i = 0; i < p.tasks[t].size(); i++) {
        Outcome so;
        long sy = 0;
        if (!solo_via_server(p.tasks[t][i], so, sy)) {
          TaskCtx ctx;
          ctx.task = -2; // not a scheduled task: no yield decisions
          arm_watchdog(std::max<long>(G.op_cpu_seconds, (long)p.tasks[t][i].i("wd", 0)));
          so = run_op(strip_env_faults(p.tasks[t][i]), ctx);
          arm_watchdog(0);
          sy = (long)ctx.yields_total;
        } else if (stats)
          stats->hit("oracle.solo_in_pristine_process");
        solo[t].push_back(so);
        task_yields[t] += sy + 1;
        if (stats)
          stats->hit("oracle.solo_replays");
      }
    G.solo_pass = false;
    bool have_points = false;
    for (auto& pr : p.preempt)
      have_points |= !pr.empty();
    if (p.meta.count("pct_d") && !have_points && p.tasks.size() > 1) {
      int d = std::stoi(p.meta["pct_d"]);
      Rng pr(mix64(p.sched_seed ^ 0x706374ULL));
      p.preempt.assign(p.tasks.size(), {});
      for (int j = 0; j < d; j++) {
        size_t t = pr.below(p.tasks.size());
        if (task_yields[t] > 0)
          p.preempt[t].push_back(1 + (long)pr.below((uint64_t)task_yields[t]));
      }
      for (auto& v : p.preempt)
        std::sort(v.begin(), v.end());
    }
  }
  res.resolved_preempt = p.preempt;
  Shared sh;
  sh.plan = &p;
  sh.ro = ro;
  sh.res = &res;
  sh.stats = stats;
  sh.outcomes.resize(p.tasks.size());
  for (size_t t = 0; t < p.tasks.size(); t++)
    sh.outcomes[t].resize(p.tasks[t].size());
  g_sh = &sh;
  Sched s;
  s.rng = Rng(mix64(p.sched_seed ^ 0x7363686564ULL));
  s.free_running = ro.free_running;
  s.stats = stats;
  s.log = ro.collect_log ? &res.log : nullptr;
  s.ts.resize(p.tasks.size());
  sem_init(&s.main_sem, 0, 0);
  g_sched = &s;
  if (p.tasks.size() == 1 && !ro.free_running) {
    // single client: no threads needed, same code path for the operations
    TaskCtx ctx;
    ctx.task = 0;
    ctx.stats = stats;
    for (size_t i = 0; i < p.tasks[0].size(); i++) {
      s.ts[0].curop = p.tasks[0][i].op();
      exec_op(0, (int)i, ctx);
    }
    res.perms = ctx.perms_total;
    res.yields = ctx.yields_total;
    res.libcalls = (long)ctx.libcalls;
  } else if (!p.tasks.empty()) {
    for (size_t t = 0; t < s.ts.size(); t++) {
      sem_init(&s.ts[t].sem, 0, 0);
      if (t < p.preempt.size())
        s.ts[t].pre = p.preempt[t];
      std::sort(s.ts[t].pre.begin(), s.ts[t].pre.end());
    }
    pthread_attr_t at;
    pthread_attr_init(&at);
    pthread_attr_setstacksize(&at, 32u << 20);
    for (size_t t = 0; t < s.ts.size(); t++)
      pthread_create(&s.ts[t].th, &at, task_main, (void*)(long)t);
    if (!ro.free_running) {
      int first = (int)s.rng.below(s.ts.size());
      s.dec.u64((uint64_t)first);
      sem_post(&s.ts[first].sem);
      sem_wait(&s.main_sem);
    }
    for (auto& t : s.ts)
      pthread_join(t.th, nullptr);
    res.switches = s.switches;
    if (stats) {
      stats->hit("sched.multi_task_runs");
      stats->hit("sched.tasks", (long)s.ts.size());
    }
  }
  res.sched_hash = s.dec.h;
  g_sched = nullptr;
  if (ro.solo_oracle && !res.machinery) {
    for (size_t t = 0; t < p.tasks.size(); t++)
      for (size_t i = 0; i < p.tasks[t].size(); i++) {
        const Outcome& seen = sh.outcomes[t][i];
        const Outcome& alone = solo[t][i];
        if (seen.skipped || alone.skipped || !seen.clause.empty() || !alone.clause.empty())
          continue;
        if (alone.digest != seen.digest) {
          res.v.push_back({(int)t, (int)i, p.prop + ".result_differs_from_solo_execution",
                           "operation [" + p.tasks[t][i].op() + " param=" + p.tasks[t][i].s("param") + "] returned (" + seen.summary + ") in the simulated history but (" + alone.summary +
                               ") when executed alone in a clean environment in a process without call history"});
          sh.loghash.str("solo-mismatch " + std::to_string(t) + "/" + std::to_string(i));
        }
      }
  }
  sh.loghash.u64(res.sched_hash);
  res.loghash = sh.loghash.h;
  g_sh = nullptr;
  return res;
}

// ------------------------------------------------------------------------------------------------ isolation
static std::string esc(const std::string& s) {
  std::string o;
  for (char c : s)
    o += (c == '\n' || c == '|') ? ' ' : c;
  return o;
}
RunResult run_plan_isolated(const Plan& p, const RunOpts& ro, Stats* stats) {
  (void)stats;
  int fd[2];
  if (pipe(fd) != 0)
    abort();
  fflush(stdout);
  fflush(stderr);
  pid_t pid = fork();
  if (pid == 0) {
    close(fd[0]);
    g_progress_fd = fd[1];
    G.forked = true;
    RunResult r = run_plan(p, ro, nullptr);
    std::string out;
    for (auto& v : r.v)
      out += "V " + std::to_string(v.task) + " " + std::to_string(v.idx) + " " + v.clause + "|" + esc(v.detail) + "\n";
    if (r.machinery)
      out += "M " + esc(r.machinery_detail) + "\n";
    out += "H " + hex64(r.loghash) + "\n";
    for (size_t t = 0; t < r.resolved_preempt.size(); t++) {
      out += "P " + std::to_string(t);
      for (long v : r.resolved_preempt[t])
        out += " " + std::to_string(v);
      out += "\n";
    }
    for (auto& d : r.digests)
      out += "D " + d.first + "|" + hex64(d.second) + "\n";
    out += "END\n";
    size_t off = 0;
    while (off < out.size()) {
      ssize_t w = write(fd[1], out.data() + off, out.size() - off);
      if (w <= 0)
        break;
      off += (size_t)w;
    }
    _exit(0);
  }
  close(fd[1]);
  std::string data;
  char buf[65536];
  ssize_t n;
  while ((n = read(fd[0], buf, sizeof buf)) > 0)
    data.append(buf, (size_t)n);
  close(fd[0]);
  int st = 0;
  waitpid(pid, &st, 0);
  RunResult r;
  int lt = 0, li = 0;
  bool ended = false;
  std::string xnote;
  std::istringstream is(data);
  std::string line;
  while (std::getline(is, line)) {
    if (line.rfind("S ", 0) == 0)
      sscanf(line.c_str(), "S %d %d", &lt, &li);
    else if (line.rfind("V ", 0) == 0) {
      Violation v;
      char cl[512];
      int off = 0;
      if (sscanf(line.c_str(), "V %d %d %n", &v.task, &v.idx, &off) >= 2) {
        std::string rest = line.substr(off);
        auto bar = rest.find('|');
        v.clause = rest.substr(0, bar);
        v.detail = bar == std::string::npos ? "" : rest.substr(bar + 1);
        r.v.push_back(v);
      }
      (void)cl;
    } else if (line.rfind("M ", 0) == 0) {
      r.machinery = true;
      r.machinery_detail = line.substr(2);
    } else if (line.rfind("H ", 0) == 0)
      r.loghash = std::stoull(line.substr(2), nullptr, 16);
    else if (line.rfind("P ", 0) == 0) {
      std::istringstream ls(line.substr(2));
      size_t t;
      ls >> t;
      if (r.resolved_preempt.size() <= t)
        r.resolved_preempt.resize(t + 1);
      long v;
      while (ls >> v)
        r.resolved_preempt[t].push_back(v);
    } else if (line.rfind("D ", 0) == 0) {
      auto bar = line.find('|');
      r.digests.push_back({line.substr(2, bar - 2), std::stoull(line.substr(bar + 1), nullptr, 16)});
    } else if (line.rfind("X ", 0) == 0)
      xnote = line.substr(2);
    else if (line == "END")
      ended = true;
  }
  if (!(WIFEXITED(st) && WEXITSTATUS(st) == 0 && ended)) {
    r.crashed = true;
    std::string cls;
    if (WIFSIGNALED(st))
      cls = std::string("crash_") + (WTERMSIG(st) == SIGSEGV ? "SIGSEGV" : WTERMSIG(st) == SIGBUS ? "SIGBUS" : WTERMSIG(st) == SIGABRT ? "SIGABRT" : WTERMSIG(st) == SIGFPE ? "SIGFPE" : WTERMSIG(st) == SIGILL ? "SIGILL" : "signal" + std::to_string(WTERMSIG(st)));
    else if (WIFEXITED(st) && WEXITSTATUS(st) == 77)
      cls = "sanitizer_report";
    else if (WIFEXITED(st) && WEXITSTATUS(st) == 78)
      cls = "step_budget_exceeded";
    else if (WIFEXITED(st) && WEXITSTATUS(st) == 79)
      cls = "no_return_within_cpu_budget";
    else
      cls = "abnormal_exit_" + std::to_string(WIFEXITED(st) ? WEXITSTATUS(st) : -1);
    const Case* c = (lt < (int)p.tasks.size() && li < (int)p.tasks[lt].size()) ? &p.tasks[lt][li] : nullptr;
    r.crash_desc = cls + " during operation t" + std::to_string(lt) + "#" + std::to_string(li) + (c ? " [" + c->text().substr(0, 300) + "]" : "");
    r.v.clear();
    r.v.push_back({lt, li, p.prop + "." + cls, r.crash_desc});
    Fnv f;
    f.str(cls);
    f.u64((uint64_t)lt);
    f.u64((uint64_t)li);
    r.loghash = f.h;
  }
  return r;
}

// ------------------------------------------------------------------------------------------------ minimisation
static bool still_fails(const Plan& p, const std::string& clause, int* reruns) {
  (*reruns)++;
  RunResult r = run_plan_isolated(p, opts_for(p), nullptr);
  if (r.machinery)
    return false;
  for (auto& v : r.v)
    if (v.clause == clause)
      return true;
  return false;
}
Plan shrink_plan(const Plan& in, const std::string& clause, int* reruns) {
  Plan p = in;
  const int BUDGET = 400;
  *reruns = 0;
  bool expect = p.meta.count("expect") && p.meta["expect"] == "1";
  // 1. drop whole tasks
  for (size_t t = 0; t < p.tasks.size() && p.tasks.size() > 1 && *reruns < BUDGET;) {
    Plan q = p;
    q.tasks.erase(q.tasks.begin() + t);
    if (t < q.preempt.size())
      q.preempt.erase(q.preempt.begin() + t);
    if (still_fails(q, clause, reruns))
      p = q;
    else
      t++;
  }
  // 2. drop operations: chunks, then singles
  for (size_t t = 0; t < p.tasks.size(); t++) {
    size_t chunk = std::max<size_t>(1, p.tasks[t].size() / 2);
    while (chunk >= 1 && *reruns < BUDGET) {
      bool any = false;
      for (size_t i = 0; i < p.tasks[t].size() && *reruns < BUDGET;) {
        if (p.nops() <= 1)
          break;
        Plan q = p;
        size_t e = std::min(i + chunk, q.tasks[t].size());
        q.tasks[t].erase(q.tasks[t].begin() + i, q.tasks[t].begin() + e);
        if (q.nops() >= 1 && still_fails(q, clause, reruns)) {
          p = q;
          any = true;
        } else
          i += chunk;
      }
      if (chunk == 1 && !any)
        break;
      chunk = chunk > 1 ? chunk / 2 : (any ? 1 : 0);
      if (chunk == 0)
        break;
    }
  }
  // drop empty tasks
  for (size_t t = 0; t < p.tasks.size() && p.tasks.size() > 1;) {
    if (p.tasks[t].empty()) {
      Plan q = p;
      q.tasks.erase(q.tasks.begin() + t);
      if (t < q.preempt.size())
        q.preempt.erase(q.preempt.begin() + t);
      if (still_fails(q, clause, reruns)) {
        p = q;
        continue;
      }
    }
    t++;
  }
  // 3. drop preemption points
  for (size_t t = 0; t < p.preempt.size(); t++)
    for (size_t i = 0; i < p.preempt[t].size() && *reruns < BUDGET;) {
      Plan q = p;
      q.preempt[t].erase(q.preempt[t].begin() + i);
      if (still_fails(q, clause, reruns))
        p = q;
      else
        i++;
    }
  if (expect)
    return p;
  // 4. drop attached faults, then simplify arguments
  static const char* shrinkable[] = {"mlen", "n", "bit", "at", "k", "k2", "nflips", "which", "mlen2", "rbit", "kbit", "kbit2"};
  for (auto& task : p.tasks)
    for (auto& c : task) {
      std::vector<std::string> keys;
      for (auto& kv : c.kv)
        if (kv.first.rfind("f.", 0) == 0)
          keys.push_back(kv.first);
      for (auto& k : keys) {
        if (*reruns >= BUDGET)
          break;
        Case saved = c;
        c.erase(k);
        if (!still_fails(p, clause, reruns))
          c = saved;
      }
      for (const char* k : shrinkable) {
        if (!c.has(k) || *reruns >= BUDGET)
          continue;
        int64_t v;
        try {
          v = c.i(k);
        } catch (...) {
          continue;
        }
        for (int64_t cand : {(int64_t)0, v / 2, v - 1}) {
          if (cand < 0 || cand >= v || *reruns >= BUDGET)
            continue;
          Case saved = c;
          c.set(k, cand);
          if (still_fails(p, clause, reruns)) {
            v = cand;
            if (cand == 0)
              break;
          } else
            c = saved;
        }
      }
      if (c.has("kpat") && c.s("kpat") != "rand" && *reruns < BUDGET) {
        Case saved = c;
        c.set("kpat", "rand");
        if (!still_fails(p, clause, reruns))
          c = saved;
      }
    }
  return p;
}
} // namespace sim
