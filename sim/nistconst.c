/* Compiled once per enabled parameter set with -include <dir>/api.h -DPFX=<lname>: the NIST-style constants. */
#define CAT2(a, b) a##b
#define CAT(a, b) CAT2(a, b)
const unsigned long CAT(PFX, _nist_consts)[3] = {CRYPTO_SECRETKEYBYTES, CRYPTO_PUBLICKEYBYTES, CRYPTO_BYTES};
