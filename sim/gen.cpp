// Plan generators: one seeded workload + fault mix per property. Everything is drawn from keyed streams of
// (seed, run, purpose...) so that one integer decides the whole plan and neighbouring draws never shift.
#include "run.hpp"
#include <algorithm>

namespace sim {
namespace {
const std::vector<int> ALL = {1, 2, 3, 4, 5, 6, 7, 8, 9, 10, 11, 12};
// relative cost of one signature (AVX2), used to keep quick runs balanced
const int COST[13] = {0, 1, 2, 3, 5, 6, 9, 4, 12, 25, 1, 3, 6};

uint64_t H(const char* s) { return strhash(s); }
int primary_param(uint64_t run) { return (int)(run % 12) + 1; }
std::string pick_node(Rng& r) { return r.chance(1, 2) ? "avx2" : "sse2"; }

void env_faults(Case& c, Rng& r, unsigned pct) {
  if (r.below(100) < pct) {
    static const std::vector<std::string> pats = {"zero", "a5", "ff", "junk"};
    c.set("f.heap", r.pick(pats));
    c.setu("f.heapseed", r.next() >> 20);
  }
  if (r.below(100) < pct / 2)
    c.set("f.stack", (int64_t)(r.chance(1, 2) ? 0xFF : r.chance(1, 2) ? 0xA5 : 0x00));
}

Case sign_case(Rng& r, int param, const char* chk) {
  Case c;
  c.set("op", "sign").set("param", param).set("surf", (int64_t)r.below(2)).set("node", pick_node(r)).set("chk", chk);
  describe_key(c, r, *model::params(param));
  describe_msg(c, r);
  return c;
}

void add_forced(Case& c, Rng& r, const model::Params& p) {
  if (!p.kkw) {
    static const std::vector<std::string> specs = {"all0", "all1", "all2", "cyc", "nonzero", "cnt", "rand"};
    std::string s = r.pick(specs);
    c.set("och", s);
    if (s == "cnt") {
      c.set("ov", (int64_t)r.below(3));
      // counts that leave every remainder mod 4 (the verifier batches by four)
      c.set("oa", (int64_t)r.below(p.T + 1));
    }
  } else {
    static const std::vector<std::string> specs = {"max", "first", "last", "spread", "ends", "rand", "edge", "edge"};
    static const std::vector<std::string> pars = {"rand", "last", "cyc", "0", "15", "7"};
    c.set("och", r.pick(specs));
    c.set("opar", r.pick(pars));
    c.set("oshuffle", (int64_t)r.below(2));
  }
  c.setu("oseed", r.next() >> 20);
}

Case wire_case(Rng& r, int param, const Case& keymsg, const char* weights_for) {
  struct W {
    const char* wf;
    int w;
  };
  static const W c02[] = {{"flip", 26}, {"padbit", 10}, {"chal", 8},  {"chal3", 3},   {"trunc", 8},   {"extend", 8},  {"dupframe", 2}, {"splice", 4}, {"torn", 4},
                          {"swapmsg", 4}, {"flipmsg", 5}, {"msglen", 2}, {"flippk", 5}, {"misroute", 5}, {"none", 4},    {"dup2", 1},     {"flips", 3}, {"reroll", 4}, {"zerosig", 1}};
  static const W c05[] = {{"arbitrary", 34}, {"flip", 14}, {"chal", 14}, {"chal3", 2},  {"trunc", 10}, {"extend", 6}, {"torn", 6},   {"splice", 3},
                          {"padbit", 3},     {"flips", 3}, {"flippk", 2}, {"misroute", 2}, {"none", 1}, {"reroll", 9}, {"zerosig", 3}, {"garbagepk", 6}};
  const W* tab = std::string(weights_for) == "c05" ? c05 : c02;
  size_t n = std::string(weights_for) == "c05" ? sizeof c05 / sizeof *c05 : sizeof c02 / sizeof *c02;
  int tot = 0;
  for (size_t i = 0; i < n; i++)
    tot += tab[i].w;
  int d = (int)r.below(tot);
  const char* wf = tab[0].wf;
  for (size_t i = 0; i < n; i++) {
    if (d < tab[i].w) {
      wf = tab[i].wf;
      break;
    }
    d -= tab[i].w;
  }
  Case c = keymsg;
  c.set("op", "verify").set("param", param).set("surf", (int64_t)r.below(3)).set("node", pick_node(r)).set("wf", wf);
  c.setu("bit", r.next() >> 8).setu("n", r.next() >> 40).setu("at", r.next() >> 30).setu("which", r.next() >> 30).setu("wseed", r.next() >> 20);
  c.setu("nflips", r.below(6));
  std::string w = wf;
  if (w == "extend" || w == "torn" || w == "arbitrary") {
    static const std::vector<std::string> pats = {"zero", "rand", "head", "ff"};
    c.set("pat", r.pick(pats));
  }
  if (w == "splice" || w == "swapmsg") {
    c.set("mlen2", (int64_t)r.below(80)).setu("mseed2", r.next() >> 20);
  }
  if (w == "misroute") {
    int q = r.chance(1, 2) ? 0 : r.pick(ALL);
    c.set("param2", q);
  }
  if (w == "trunc" && r.chance(1, 3))
    c.setu("n", r.below(8)); // the last few bytes
  return c;
}

Case keymsg_case(Rng& r, int param) {
  Case c;
  c.set("param", param);
  describe_key(c, r, *model::params(param));
  describe_msg(c, r);
  return c;
}

// messages whose length does not fit 32 bits (a read-only zero-page mapping, see op_hugemsg): one operation in each of a
// few runs so that they land on different workers; lengths on both sides of 2^32 chosen so that the low 32 bits are small,
// or the sum with a partially filled sponge block wraps
void huge_message_ops(Plan& p, bool thorough, const char* sub) {
  static const uint64_t lens[] = {(1ULL << 32) - 1, (1ULL << 32) + 5,  (1ULL << 32) - 16,  (1ULL << 32) + 40, (1ULL << 32),       (1ULL << 32) + 167,
                                  (1ULL << 33) + 1, (1ULL << 32) - 2,  (1ULL << 32) + 135, (1ULL << 32) - 137, (1ULL << 32) + 1, (1ULL << 32) - 169};
  if (p.run >= 12)
    return;
  int prim = primary_param(p.run);
  bool l1 = prim == 1 || prim == 7 || prim == 10; // SHAKE128 sets: cheapest per byte
  bool dosign = std::string(sub) == "sign";
  if (!thorough && (!l1 || (dosign && prim != 1) || G.variant.rfind("u64", 0) == 0)) // quick: the first pass only (the sponge is the same code in the uint64 builds)
    return;
  Rng r = rng_for(p.seed, {H("huge"), p.run});
  Case c;
  c.set("op", "hugemsg").set("param", prim).set("surf", (int64_t)r.below(2)).set("node", pick_node(r)).set("sub", sub).set("kpat", "rand").setu("kseed", r.next() >> 20);
  c.setu("mlen", lens[(p.run + p.seed) % 12]);
  if (!thorough) // quick: one length of each class (wrap below 2^32, zero low bits above it, small low bits above it)
    c.setu("mlen", prim == 1 ? (dosign ? (1ULL << 32) + 3 : (1ULL << 32) - 1) : prim == 7 ? (1ULL << 32) + 5 : (1ULL << 32) + 40);
  c.set("wd", dosign ? 900 : 450); // CPU seconds: absorbing 4 GiB takes 10-15 s per pass, three to four times that under sanitizers
  p.tasks[0].push_back(c);
}

// ---------------------------------------------------------------------------------------------- per property
void gen_c01(Plan& p, bool thorough) {
  Rng r = rng_for(p.seed, {H("C01"), p.run});
  int nops = thorough ? 8 : 5;
  int prim = primary_param(p.run);
  p.tasks.resize(1);
  for (int i = 0; i < nops; i++) {
    int param = (i == 0 || r.chance(2, 3)) ? prim : r.pick(ALL);
    if (!thorough && COST[param] > 9 && i > 1)
      param = prim;
    Rng ro = rng_for(p.seed, {H("C01"), p.run, H("op"), (uint64_t)param, (uint64_t)i});
    Case c = sign_case(ro, param, "c01");
    c.set("kmode", "lib");
    env_faults(c, ro, 30);
    if (i == nops - 1)
      add_forced(c, ro, *model::params(param));
    p.tasks[0].push_back(c);
  }
  huge_message_ops(p, thorough, "sign");
}
void gen_c02(Plan& p, bool thorough) {
  Rng r = rng_for(p.seed, {H("C02"), p.run});
  int prim = primary_param(p.run);
  p.tasks.resize(1);
  uint64_t enum_base = default_runs("C02", p.tier) - (thorough ? 3 * 128 : 0);
  if (thorough && p.run >= enum_base) {
    // enumeration slices of the single-bit neighbourhood of one signature each for the three L1 families
    uint64_t j = p.run - enum_base;
    static const int eparams[3] = {1, 7, 10};
    int param = eparams[j / 128];
    uint64_t slice = j % 128;
    Rng rk = rng_for(p.seed, {H("C02"), H("enumkey"), (uint64_t)param});
    Case km;
    km.set("param", param).set("kpat", "rand").setu("kseed", rk.next() >> 20).set("mlen", 33).setu("mseed", rk.next() >> 20);
    size_t maxbits = 8 * model::params(param)->documented_max;
    size_t per = (maxbits + 127) / 128;
    for (size_t b = slice * per; b < (slice + 1) * per; b++) {
      Case c = km;
      c.set("op", "verify").set("surf", 0).set("node", (b & 1) ? "sse2" : "avx2").set("wf", "flip").setu("bit", b).set("enum", 1).set("place", "heap");
      p.tasks[0].push_back(c);
    }
    return;
  }
  Case km[2] = {keymsg_case(r, prim), keymsg_case(r, prim)};
  km[1].kv["kpat"] = km[0].kv["kpat"];
  km[1].kv["kseed"] = km[0].kv["kseed"];
  if (km[0].has("kbit"))
    km[1].kv["kbit"] = km[0].kv["kbit"];
  if (km[0].has("kbit2"))
    km[1].kv["kbit2"] = km[0].kv["kbit2"];
  int nops = thorough ? 40 : 24;
  for (int i = 0; i < nops; i++) {
    Rng ro = rng_for(p.seed, {H("C02"), p.run, H("op"), (uint64_t)i});
    Case c = wire_case(ro, prim, km[ro.below(2)], "c02");
    if (ro.chance(1, 3))
      c.set("place", "heap");
    p.tasks[0].push_back(c);
  }
  huge_message_ops(p, thorough, "verify");
  if (COST[prim] <= 6 || thorough || (p.run / 12) % 4 == 0) {
    Case c = km[0];
    c.set("op", "verify").set("surf", (int64_t)r.below(2)).set("node", pick_node(r)).set("wf", "nearmiss").setu("bit", r.next() >> 8).setu("n", r.next() >> 40);
    p.tasks[0].push_back(c);
  }
  // one intact delivery of a signature the library's own signer had no part in
  if (COST[prim] <= 6 || thorough) {
    Case c = km[0];
    c.set("op", "verify").set("surf", 0).set("node", pick_node(r)).set("wf", "none").set("sigsrc", "model");
    p.tasks[0].push_back(c);
    Case d = c;
    d.set("wf", "flip").setu("bit", r.next() >> 8);
    p.tasks[0].push_back(d);
  }
}
void gen_c03(Plan& p, bool thorough) {
  // one history: the same (key, message) is signed first, again after other work (other parameter sets, failed and
  // faulted calls), on the other node / surface, under perturbed heap and stack; all must be the model's bytes
  Rng r = rng_for(p.seed, {H("C03"), p.run});
  int prim = primary_param(p.run);
  p.tasks.resize(1);
  p.meta["solo"] = "1";
  Case x = sign_case(r, prim, "c03");
  x.set("surf", 0).set("node", "avx2");
  p.tasks[0].push_back(x);
  int between = thorough ? 5 : 3;
  for (int i = 0; i < between; i++) {
    Rng ro = rng_for(p.seed, {H("C03"), p.run, H("between"), (uint64_t)i});
    int q = ro.pick(ALL);
    if (COST[q] > 6 && !thorough)
      q = (int)ro.below(2) ? 1 : 10;
    unsigned d = (unsigned)ro.below(100);
    Case c;
    if (d < 35) {
      c = sign_case(ro, q, "c03");
      if (COST[q] > 6)
        c.set("chk", ""); // model signatures of the big sets are rationed
      env_faults(c, ro, 50);
    } else if (d < 60)
      c = wire_case(ro, q, keymsg_case(ro, q), "c05"); // a faulted, failing call
    else if (d < 75) {
      c.set("op", "keygen").set("param", q).set("surf", (int64_t)ro.below(3)).set("node", pick_node(ro)).set("rs", "rand").setu("rseed", ro.next() >> 20);
      if (ro.chance(1, 2))
        c.set("f.rng_err", "EAGAIN").set("f.rng_req", (int64_t)ro.below(2));
    } else if (d < 88) {
      c.set("op", "import").set("pb", (int64_t)ro.below(256)).set("which", ro.chance(1, 2) ? "sk" : "pk").set("n", (int64_t)ro.below(100)).setu("kseed", ro.next() >> 20);
    } else {
      c = sign_case(ro, q, "");
      c.set("cap", "frac500"); // a failing sign (short buffer)
    }
    p.tasks[0].push_back(c);
  }
  // challenge patterns the hash reaches with negligible probability: the programmable oracle drives signer and model to
  // the same extreme challenge (clustered / spread / boundary opened sets, every hidden-party rule, all-equal ZKB++ vectors)
  if (COST[prim] <= 6 || thorough || model::params(prim)->kkw || (p.run / 12) % 3 == 0) {
    Rng ro = rng_for(p.seed, {H("C03"), p.run, H("forced")});
    Case f = sign_case(ro, prim, "c03");
    add_forced(f, ro, *model::params(prim));
    if (model::params(prim)->kkw && ro.chance(1, 2)) // the ragged right edge of the seed / Merkle trees, every subset over time
      f.set("och", "edge").set("oedge", (int64_t)((p.run / 12 + p.seed) % 62));
    p.tasks[0].push_back(f);
  }
  // the same input again, elsewhere
  for (int i = 0; i < 2; i++) {
    Rng ro = rng_for(p.seed, {H("C03"), p.run, H("again"), (uint64_t)i});
    Case y = x;
    y.set("surf", (int64_t)ro.below(2)).set("node", i == 0 ? "sse2" : pick_node(ro));
    env_faults(y, ro, 100);
    y.set("outfill", (int64_t)(ro.chance(1, 2) ? 0x00 : 0xFF));
    p.tasks[0].push_back(y);
  }
}
void gen_c04(Plan& p, bool thorough) {
  // node-free plan: the driver runs it once per (build, caps word) and compares result digests line by line
  Rng r = rng_for(p.seed, {H("C04"), p.run});
  int prim = primary_param(p.run);
  p.tasks.resize(1);
  int n = thorough ? 14 : 9;
  Case km = keymsg_case(r, prim);
  for (int i = 0; i < n; i++) {
    Rng ro = rng_for(p.seed, {H("C04"), p.run, H("op"), (uint64_t)i});
    unsigned d = (unsigned)ro.below(100);
    Case c;
    if (d < 20) {
      c.set("op", "keygen").set("param", prim).set("surf", (int64_t)ro.below(3)).set("rs", "rand").setu("rseed", ro.next() >> 20).set("chk", "c07");
    } else if (d < 40) {
      c.set("op", "lowmc").set("param", ro.chance(2, 3) ? prim : ro.pick(ALL)).set("surf", (int64_t)ro.below(2));
      describe_key(c, ro, *model::params((int)c.i("param")));
    } else if (d < 60) {
      c = sign_case(ro, prim, COST[prim] <= 6 || thorough ? "c03" : "c01");
    } else if (d < 92) {
      c = wire_case(ro, prim, km, "c02");
    } else {
      c = km;
      c.set("op", "nist").set("param", prim).set("sub", ro.chance(1, 2) ? "sign" : "open").set("ff", ro.chance(1, 2) ? "none" : "flip").setu("bit", ro.next() >> 8);
    }
    c.erase("node");
    p.tasks[0].push_back(c);
  }
  // in-process differential at volume (reference pass only executes it; the other passes skip it)
  for (int i = 0; i < (thorough ? 24 : (COST[prim] > 9 ? 4 : COST[prim] > 4 ? 8 : 16)); i++) {
    Rng ro = rng_for(p.seed, {H("C04"), p.run, H("signdiff"), (uint64_t)i});
    Case c = sign_case(ro, prim, "");
    c.set("op", "signdiff").set("mlen", (int64_t)ro.below(40));
    c.erase("node");
    p.tasks[0].push_back(c);
  }
}
void gen_c05(Plan& p, bool thorough) {
  Rng r = rng_for(p.seed, {H("C05"), p.run});
  int prim = primary_param(p.run);
  p.tasks.resize(1);
  Case km = keymsg_case(r, prim);
  int n = thorough ? 40 : 26;
  for (int i = 0; i < n; i++) {
    Rng ro = rng_for(p.seed, {H("C05"), p.run, H("op"), (uint64_t)i});
    unsigned d = (unsigned)ro.below(100);
    Case c;
    if (d < 64) {
      c = wire_case(ro, prim, km, "c05");
      c.set("place", "edge");
      if (c.s("wf") == "arbitrary" && ro.chance(1, 2)) {
        // strided sweep over every length 0 .. max+64
        size_t mx = model::params(prim)->documented_max + 65;
        c.setu("n", (p.run * 131 + (uint64_t)i * 977 + p.seed) % mx);
      }
    } else if (d < 82) {
      c.set("op", "import").set("pb", (int64_t)ro.below(256)).set("which", ro.chance(1, 2) ? "sk" : "pk").set("surf", (int64_t)ro.below(2)).set("param", prim);
      c.set("n", (int64_t)ro.below(100)).setu("kseed", ro.next() >> 20);
      if (ro.chance(1, 2))
        c.set("pb", prim);
      if (ro.chance(1, 3))
        c.set("padf", (int64_t)(1 + ro.below(7))).set("padv", (int64_t)(1 + ro.below(127)));
    } else {
      c = km;
      static const std::vector<std::string> ffs = {"trunc", "prefix", "flip", "extend", "pk", "arbitrary", "none", "zerowin", "zerowin", "reroll", "foreign"};
      static const std::vector<std::string> pvs = {"zero", "one", "max", "smlen", "smlen-3", "smlen-4", "wrap", "d"};
      static const std::vector<std::string> ovs = {"disjoint", "disjoint", "same", "plus4", "inside"};
      c.set("op", "nist").set("param", prim).set("sub", "open").set("ff", ro.pick(ffs)).set("pv", ro.pick(pvs)).set("overlap", ro.pick(ovs));
      c.setu("n", ro.chance(1, 3) ? ro.below(9) : ro.next() >> 40).setu("bit", ro.next() >> 8).setu("wseed", ro.next() >> 20);
    }
    env_faults(c, ro, 40);
    p.tasks[0].push_back(c);
  }
  huge_message_ops(p, thorough, "verify");
}
// a declared capacity far beyond the real buffer: values whose low 16, 31 or 32 bits are zero or small, and the type limits
static std::string declared_cap(Rng& r) {
  static const uint64_t base[] = {1ULL << 32, 1ULL << 33, 3ULL << 32, 1ULL << 40, 1ULL << 63, 1ULL << 31, 0xFFFFFFFFULL, 0x7FFFFFFFULL, 1ULL << 18, 1ULL << 24, 1ULL << 48, 0x8000000000000000ULL + (1ULL << 32)};
  uint64_t v = base[r.below(sizeof(base) / sizeof(base[0]))];
  switch (r.below(4)) {
  case 0: break;
  case 1: v += 1; break;
  case 2: v += r.below(4096); break;
  default: v += 4096 + r.below(200000); break;
  }
  return "decl" + std::to_string(v);
}
void gen_c06(Plan& p, bool thorough) {
  Rng r = rng_for(p.seed, {H("C06"), p.run});
  int prim = primary_param(p.run);
  p.tasks.resize(1);
  static const std::vector<std::string> caps = {"0",        "1",      "hdr-1",   "hdr",     "needed-1", "needed",  "needed+1", "max-1",   "max",
                                                "max+1",    "frac250", "frac500", "frac900", "frac999",  "needed-8", "hdr+1",    "needed+64", "max+4096", "sizemax", "declared"};
  Case km = keymsg_case(r, prim);
  int n = thorough ? 14 : 8;
  for (int i = 0; i < n; i++) {
    Rng ro = rng_for(p.seed, {H("C06"), p.run, H("op"), (uint64_t)i});
    Case c = km;
    c.set("op", "sign").set("surf", (int64_t)ro.below(2)).set("node", pick_node(ro)).set("chk", "c06");
    c.set("cap", caps[(p.run / 12 * n + i) % caps.size()]);
    if (ro.chance(1, 5))
      c.set("cap", "frac" + std::to_string(ro.below(1000)));
    if (c.s("cap") == "declared")
      c.set("cap", declared_cap(ro));
    c.set("outfill", (int64_t)(ro.chance(1, 2) ? 0xC7 : 0x00));
    if (ro.chance(1, 4))
      describe_msg(c, ro);
    p.tasks[0].push_back(c);
  }
  static const std::vector<std::string> ecaps = {"0", "1", "size-1", "size", "size+1", "size+17", "size-2", "2"};
  for (int i = 0; i < 6; i++) {
    Rng ro = rng_for(p.seed, {H("C06"), p.run, H("export"), (uint64_t)i});
    Case c = km;
    c.set("op", "export").set("which", ro.chance(1, 2) ? "sk" : "pk").set("surf", (int64_t)ro.below(2)).set("cap", ecaps[(p.run / 12 * 6 + i) % ecaps.size()]);
    if (ro.chance(1, 6))
      c.set("cap", (int64_t)ro.below(120));
    p.tasks[0].push_back(c);
  }
}
void gen_c07(Plan& p, bool thorough) {
  // enumeration: run -> (parameter set, surface); every unit stream over the bytes a call can consume, the fixed
  // streams, every failure point x kind for requests 0..3, plus random streams
  int param = (int)(p.run % 12) + 1, surf = (int)((p.run / 12) % 3);
  const model::Params& pp = *model::params(param);
  p.tasks.resize(1);
  auto base = [&] {
    Case c;
    c.set("op", "keygen").set("param", param).set("surf", surf).set("node", ((p.run / 36) & 1) ? "sse2" : "avx2").set("chk", "c07");
    return c;
  };
  if (p.run < 36) {
    Case z = base();
    z.set("rs", "zero");
    p.tasks[0].push_back(z);
    Case o = base();
    o.set("rs", "ones");
    p.tasks[0].push_back(o);
    int nbits = 8 * (2 * pp.ios + 8); // everything a fault-free call can consume, and a margin beyond it
    for (int b = 0; b < nbits; b++) {
      Case u = base();
      u.set("rs", "unit").set("rbit", b);
      p.tasks[0].push_back(u);
    }
    static const char* errs[] = {"EAGAIN", "EINTR", "ENOSYS"};
    for (int req = 0; req < 4; req++) {
      for (auto e : errs) {
        Case f = base();
        f.set("rs", "rand").setu("rseed", p.seed + req).set("f.rng_err", e).set("f.rng_req", req);
        p.tasks[0].push_back(f);
      }
      for (int sn : {0, 1, -1, pp.ios - 1, pp.ios / 2}) {
        Case f = base();
        f.set("rs", "rand").setu("rseed", p.seed + 100 + req).set("f.rng_short", sn).set("f.rng_req", req);
        p.tasks[0].push_back(f);
      }
    }
  }
  Rng r = rng_for(p.seed, {H("C07"), p.run});
  int nrand = p.run < 36 ? 20 : (thorough ? 400 : 100);
  for (int i = 0; i < nrand; i++) {
    Case c = base();
    c.set("rs", "rand").setu("rseed", r.next() >> 16).set("node", pick_node(r));
    if (r.chance(1, 10)) {
      c.set("f.rng_req", (int64_t)r.below(3));
      if (r.chance(1, 2))
        c.set("f.rng_err", r.chance(1, 2) ? "EAGAIN" : "EINTR");
      else
        c.set("f.rng_short", (int64_t)r.below(pp.ios));
    }
    p.tasks[0].push_back(c);
  }
}
void gen_c09(Plan& p, bool thorough) {
  (void)thorough;
  int prim = primary_param(p.run);
  const model::Params& pp = *model::params(prim);
  p.tasks.resize(1);
  int n = thorough ? 4 : (COST[prim] > 9 ? 2 : 3);
  for (int i = 0; i < n; i++) {
    Rng ro = rng_for(p.seed, {H("C09"), p.run, H("op"), (uint64_t)i});
    Case c = sign_case(ro, prim, "c09");
    c.set("kpat", "rand");
    if (i >= 1) {
      add_forced(c, ro, pp);
      if (pp.kkw) { // walk the hidden party through every index across runs
        c.set("opar", std::to_string((p.run / 12 + i) % 16));
      } else if (i == 1)
        c.set("och", std::string("all") + std::to_string((p.run / 12) % 3));
    }
    p.tasks[0].push_back(c);
  }
}
void gen_c10(Plan& p, bool thorough) {
  Rng r = rng_for(p.seed, {H("C10"), p.run});
  int prim = primary_param(p.run);
  const model::Params& pp = *model::params(prim);
  p.tasks.resize(1);
  // structured part: all-zero, all-one and a slice of the 2n unit patterns, then random
  int slice = (int)(p.run / 12);
  auto mk = [&](const char* pat, int64_t bit, Rng& ro) {
    Case c;
    c.set("op", "lowmc").set("param", prim).set("surf", (int64_t)ro.below(2)).set("node", pick_node(ro)).set("kpat", pat).setu("kseed", ro.next() >> 20);
    if (bit >= 0)
      c.set("kbit", bit);
    return c;
  };
  if (slice == 0) {
    p.tasks[0].push_back(mk("zero", -1, r));
    p.tasks[0].push_back(mk("ones", -1, r));
    p.tasks[0].push_back(mk("alt", -1, r));
  }
  int per = thorough ? 64 : 24;
  for (int b = slice * per; b < (slice + 1) * per && b < 2 * pp.n; b++) {
    Case c = mk("unit", b, r);
    c.set("node", (b & 1) ? "sse2" : "avx2");
    p.tasks[0].push_back(c);
  }
  // the state-recording variant (ZKB++ signer) and the stored inverse matrices (KKW preprocessing) are observable
  // only through signatures: a wrong recorded state breaks the third share, a wrong inverse the aux bits
  if (COST[prim] <= 6 || thorough || slice % 4 == 0)
    for (int i = 0; i < 2; i++) {
      Rng ro = rng_for(p.seed, {H("C10"), p.run, H("sig"), (uint64_t)i});
      Case c = sign_case(ro, prim, "c03");
      c.set("node", i ? "sse2" : "avx2");
      p.tasks[0].push_back(c);
    }
  // the aux / recording / MPC paths at volume: the same input signed on the AVX2 and on the SSE2 node must give the same
  // bytes (and the signer's own consistency check must pass); no model signature needed
  for (int i = 0; i < (thorough ? 40 : (COST[prim] > 9 ? 5 : COST[prim] > 4 ? 8 : 16)); i++) {
    Rng ro = rng_for(p.seed, {H("C10"), p.run, H("signdiff"), (uint64_t)i});
    Case c = sign_case(ro, prim, "");
    c.set("op", "signdiff").set("mlen", (int64_t)ro.below(40));
    c.erase("node");
    p.tasks[0].push_back(c);
  }
  {
    Case b;
    for (int rep = 0; rep < (thorough ? 2 : 1); rep++) {
      b.set("op", "lowmcbulk").set("param", prim).set("surf", (int64_t)r.below(2)).set("node", pick_node(r)).setu("seed", r.next() >> 16).setu("count", thorough ? 150000 : 12000);
      b.set("wd", 900); // CPU seconds: about 50 us per evaluation for the 256-bit instance, more under load
      p.tasks[0].push_back(b);
    }
  }
  int nrand = thorough ? 400 : 120;
  for (int i = 0; i < nrand; i++) {
    Rng ro = rng_for(p.seed, {H("C10"), p.run, H("op"), (uint64_t)i});
    Case c;
    c.set("op", "lowmc").set("param", prim).set("surf", (int64_t)ro.below(2)).set("node", pick_node(ro));
    describe_key(c, ro, pp);
    p.tasks[0].push_back(c);
  }
}
void gen_c11(Plan& p, bool thorough) {
  // enumeration: run -> slice of the 256 parameter byte values; every length 0..size+1 (0..100 for invalid bytes),
  // all 2^k padding patterns per field singly, sampled jointly; both key kinds; both surfaces
  p.tasks.resize(1);
  Rng r = rng_for(p.seed, {H("C11"), p.run});
  int slices = 32, per = 256 / slices;
  int s = (int)(p.run % slices);
  if (p.run < (uint64_t)slices) {
    for (int pb = s * per; pb < (s + 1) * per; pb++) {
      Case sz;
      sz.set("op", "sizes").set("pb", pb).set("chk", "c11");
      p.tasks[0].push_back(sz);
      const model::Params* pp = model::params(pb);
      for (int which = 0; which < 2; which++) {
        size_t size = pp ? (size_t)1 + (which ? 3 : 2) * pp->ios : 0;
        size_t maxn = pp ? size + 2 : 100;
        for (size_t n = 0; n <= maxn; n++)
          for (int surf = 0; surf < (pp ? 2 : 1); surf++) {
            Case c;
            c.set("op", "import").set("pb", pb).set("param", pp ? pb : 1).set("which", which ? "sk" : "pk").set("surf", surf).set("n", n).setu("kseed", r.next() >> 20).set("chk", "c11");
            if (pp)
              c.set("kpat", "rand");
            p.tasks[0].push_back(c);
          }
        if (pp && (8 * pp->ios - pp->n) > 0) {
          int k = 8 * pp->ios - pp->n, nf = which ? 3 : 2;
          for (int f = 0; f < nf; f++)
            for (int v = 1; v < (1 << k); v++)
              for (int surf = 0; surf < 2; surf++) {
                Case c;
                c.set("op", "import").set("pb", pb).set("param", pb).set("which", which ? "sk" : "pk").set("surf", surf).set("n", size + (size_t)(v % 2)).setu("kseed", r.next() >> 20);
                c.set("padf", 1 << f).set("padv", v).set("chk", "c11").set("kpat", "rand");
                p.tasks[0].push_back(c);
              }
        }
        if (pp && (8 * pp->ios - pp->n) > 0) {
          // jointly: the same pattern in two or three fields (a validator that folds the fields must not let them cancel)
          int k = 8 * pp->ios - pp->n, nf = which ? 3 : 2;
          for (int fm = 3; fm < (1 << nf); fm++) {
            if (__builtin_popcount(fm) < 2)
              continue;
            for (int v = 1; v < (1 << k); v++)
              for (int surf = 0; surf < 2; surf++) {
                Case c;
                c.set("op", "import").set("pb", pb).set("param", pb).set("which", which ? "sk" : "pk").set("surf", surf).set("n", size).setu("kseed", r.next() >> 20);
                c.set("padf", fm).set("padv", v).set("chk", "c11").set("kpat", "rand");
                p.tasks[0].push_back(c);
              }
          }
        }
        // foreign parameter byte through the per-parameter surface
        if (pp)
          for (int q = 1; q <= 12; q++)
            if (q != pb) {
              Case c;
              c.set("op", "import").set("pb", pb).set("param", q).set("which", which ? "sk" : "pk").set("surf", 1).set("n", 100).setu("kseed", r.next() >> 20).set("chk", "c11").set("kpat", "rand");
              p.tasks[0].push_back(c);
            }
      }
    }
    return;
  }
  // sampled part: random key contents (edge patterns), joint padding patterns, export round trips
  int n = thorough ? 600 : 200;
  for (int i = 0; i < n; i++) {
    Rng ro = rng_for(p.seed, {H("C11"), p.run, H("op"), (uint64_t)i});
    int pb = ro.chance(5, 6) ? ro.pick(ALL) : (int)ro.below(256);
    const model::Params* pp = model::params(pb);
    Case c;
    bool sk = ro.chance(1, 2);
    if (pp && ro.chance(1, 4)) {
      c.set("op", "export").set("param", pb).set("which", sk ? "sk" : "pk").set("surf", (int64_t)ro.below(2)).set("cap", ro.chance(1, 2) ? "size" : "size+9");
      describe_key(c, ro, *pp);
    } else {
      size_t size = pp ? (size_t)1 + (sk ? 3 : 2) * pp->ios : 40;
      c.set("op", "import").set("pb", pb).set("param", pp ? pb : 1).set("which", sk ? "sk" : "pk").set("surf", (int64_t)ro.below(pp ? 2 : 1)).set("chk", "c11");
      c.set("n", ro.chance(2, 3) ? size + ro.below(3) : ro.below(size + 3));
      if (pp) {
        describe_key(c, ro, *pp);
        if (ro.chance(1, 2) && (8 * pp->ios - pp->n) > 0) {
          c.set("padf", (int64_t)ro.below(8)).set("padv", (int64_t)ro.below(128));
          if (ro.chance(1, 2)) // independent values per field, biased to values that cancel or complement each other
            c.set("padv0", (int64_t)ro.below(128)).set("padv1", (int64_t)(ro.chance(1, 2) ? c.i("padv0") ^ ro.below(4) : ro.below(128))).set("padv2", (int64_t)(c.i("padv0") ^ c.i("padv1") ^ ro.below(2)));
        }
      } else
        c.setu("kseed", ro.next() >> 20);
    }
    p.tasks[0].push_back(c);
  }
}
void gen_c12(Plan& p, bool thorough) {
  // run -> (parameter set, surface); single-bit corruption of every meaningful key bit and parameter-byte bit
  // (strided in quick), random multi-bit corruption, and parameter-byte changes between sets that share key material
  int param = (int)(p.run % 12) + 1;
  const model::Params& pp = *model::params(param);
  Rng r = rng_for(p.seed, {H("C12"), p.run});
  p.tasks.resize(1);
  Case km = keymsg_case(r, param);
  km.set("kpat", "rand").set("mlen", (int64_t)r.below(70));
  int total = 8 + 3 * pp.n;
  uint64_t round = p.run / 12;
  // quick: one strided sweep per run (stride 8/16 plus both ends of every field, surface rotating with the bit index).
  // thorough: rounds 0..23 enumerate every bit through every surface: 8 slices x 3 surfaces; later rounds only sample.
  const int nslices = 8;
  bool sweep = !thorough || round < (uint64_t)(3 * nslices);
  int stride = pp.kkw ? 16 : 8;
  if (sweep)
    for (int b = 0; b < total; b++) {
      int64_t surf;
      if (thorough) {
        if (b % nslices != (int)(round % nslices))
          continue;
        surf = (int64_t)((round / nslices) % 3);
      } else {
        bool edge = b < 8 || (b - 8) % pp.n < 8 || (b - 8) % pp.n >= pp.n - 8;
        if (!edge && (b + (int)round) % stride != 0)
          continue;
        surf = b < 8 ? (int64_t)((b + round) % 2 ? 0 : 2) : (int64_t)((b + round) % 3);
      }
      Case c = km;
      c.set("op", "signbad").set("surf", surf).set("node", (b & 1) ? "sse2" : "avx2").set("cf", std::to_string(b));
      p.tasks[0].push_back(c);
    }
  int nmulti = thorough ? 40 : 12;
  for (int i = 0; i < nmulti; i++) {
    Rng ro = rng_for(p.seed, {H("C12"), p.run, H("multi"), (uint64_t)i});
    Case c = km;
    int nf = 2 + (int)ro.below(4);
    std::string cf;
    for (int j = 0; j < nf; j++)
      cf += (j ? "," : "") + std::to_string(8 + ro.below(3 * pp.n));
    c.set("op", "signbad").set("surf", (int64_t)ro.below(3)).set("node", pick_node(ro)).set("cf", cf);
    p.tasks[0].push_back(c);
  }
  // parameter byte rewritten to the peer that shares LowMC instance and layout (still consistent there), and to others
  static const int PEER[13] = {0, 2, 1, 4, 3, 6, 5, 10, 11, 12, 7, 8, 9};
  for (int q : {PEER[param], (int)(1 + r.below(12))}) {
    int x = param ^ q;
    std::string cf;
    for (int b = 0; b < 8; b++)
      if (x & (0x80 >> b))
        cf += (cf.empty() ? "" : ",") + std::to_string(b);
    if (cf.empty())
      continue;
    Case c = km;
    c.set("op", "signbad").set("surf", 0).set("node", pick_node(r)).set("cf", cf);
    p.tasks[0].push_back(c);
  }
  // and the uncorrupted key signs (empty corruption list)
  Case ok = km;
  ok.set("op", "sign").set("surf", (int64_t)r.below(2)).set("node", pick_node(r)).set("chk", "c01").set("kmode", "model");
  p.tasks[0].push_back(ok);
}
void gen_c13(Plan& p, bool thorough) {
  Rng r = rng_for(p.seed, {H("C13"), p.run});
  p.tasks.resize(1);
  if (p.run == 0) {
    for (int pb = 0; pb < 256; pb++) {
      Case c;
      c.set("op", "sizes").set("pb", pb).set("chk", "c13");
      p.tasks[0].push_back(c);
    }
    return;
  }
  int prim = primary_param(p.run);
  const model::Params& pp = *model::params(prim);
  std::vector<std::pair<std::string, std::string>> specs;
  if (!pp.kkw)
    specs = {{"all1", ""}, {"all2", ""}, {"nonzero", ""}, {"all0", ""}, {"cyc", ""}, {"cnt", ""}, {"rand", ""}};
  else
    specs = {{"max", "0"}, {"max", "cyc"}, {"max", "rand"}, {"spread", "7"}, {"first", "last"}, {"last", "15"}, {"ends", "cyc"}, {"rand", "rand"}, {"max", "14"}};
  int n = thorough ? 4 : (COST[prim] > 9 ? 1 : 2);
  for (int i = 0; i < n; i++) {
    Rng ro = rng_for(p.seed, {H("C13"), p.run, H("op"), (uint64_t)i});
    auto& sp = specs[(p.run / 12 * n + i) % specs.size()];
    Case c = sign_case(ro, prim, COST[prim] > 9 && !thorough ? "c13" : "c13,c03");
    c.set("och", sp.first).setu("oseed", ro.next() >> 20).set("cap", "max").set("place", "edge");
    if (!sp.second.empty())
      c.set("opar", sp.second);
    if (sp.first == "cnt")
      c.set("ov", (int64_t)ro.below(3)).set("oa", (int64_t)ro.below(pp.T + 1));
    c.set("oshuffle", (int64_t)ro.below(2));
    p.tasks[0].push_back(c);
  }
  if (pp.kkw) // every subset of the last six leaves (single-child nodes, missing siblings) against the size model: no model signature needed
    for (int i = 0; i < 6; i++) {
      Rng ro = rng_for(p.seed, {H("C13"), p.run, H("edge"), (uint64_t)i});
      Case e = sign_case(ro, prim, "c13");
      e.set("och", "edge").set("oedge", (int64_t)((p.run / 12 * 6 + i + p.seed) % 62)).setu("oseed", ro.next() >> 20).set("opar", ro.chance(1, 2) ? "rand" : "cyc").set("cap", "max").set("place", "edge");
      p.tasks[0].push_back(e);
    }
  // hash-derived challenges as well: exact-size buffer at the guard page
  Case c = sign_case(r, prim, "c13");
  c.set("cap", "max").set("place", "edge");
  p.tasks[0].push_back(c);
  // "a buffer of at least the advertised size": the same buffer with a far larger declared capacity
  Case d = sign_case(r, prim, "c13");
  d.set("cap", r.chance(1, 6) ? std::string("sizemax") : declared_cap(r)).set("place", "edge");
  if (!pp.kkw && r.chance(1, 2))
    d.set("och", r.chance(1, 2) ? "nonzero" : "all1").setu("oseed", r.next() >> 20);
  p.tasks[0].push_back(d);
}
void gen_c14(Plan& p, bool thorough) {

  p.tasks.resize(1);
  static const int dszs[3] = {32, 48, 64};
  uint64_t nrand = thorough ? 6000 : default_runs("C14", "quick");
  if (thorough && p.run >= nrand) {
    // exhaustive: every input length 0..3*rate+1, every two-way absorb split, a two-way squeeze split
    uint64_t j = p.run - nrand;
    int combo = (int)(j % 4);
    int dsz = (combo & 1) ? 64 : 32;
    bool x4 = combo & 2;
    int rate = dsz == 32 ? 168 : 136;
    size_t L = (size_t)(j / 4);
    if (L > (size_t)3 * rate + 1) {
      return;
    }
    for (size_t cut = 0; cut <= L; cut++) {
      Case c;
      std::string s = "a" + std::to_string(cut) + (x4 && (cut & 1) ? " b" : " a") + std::to_string(L - cut) + " s" + std::to_string(1 + (cut % (size_t)rate)) + (x4 ? " q" : " s") +
                      std::to_string((size_t)rate + 1);
      c.set("op", "hash").set("dsz", dsz).set("mode", x4 ? "x4" : "single").setu("seed", p.seed * 1000003 + j * 4099 + cut).set("sched", s);
      p.tasks[0].push_back(c);
    }
    return;
  }
  int n = thorough ? 60 : 40;
  for (int i = 0; i < n; i++) {
    Rng ro = rng_for(p.seed, {H("C14"), p.run, H("op"), (uint64_t)i});
    int dsz = dszs[ro.below(3)];
    int rate = dsz == 32 ? 168 : 136;
    bool x4 = ro.chance(1, 2);
    std::vector<int64_t> marks = {0, 1, rate - 1, rate, rate + 1, 2 * rate - 1, 2 * rate, 2 * rate + 1, 3 * rate, 3 * rate + 1};
    int64_t L = ro.chance(2, 3) ? ro.pick(marks) : (int64_t)ro.below(3 * rate + 2);
    std::string s;
    int64_t used = 0;
    if (ro.chance(1, 4)) {
      s += "p" + std::to_string(ro.below(6)) + " ";
      used += 1;
    }
    int pieces = 1 + (int)ro.below(4);
    std::vector<int64_t> cuts;
    for (int k = 0; k < pieces - 1; k++) {
      int64_t cpos = ro.chance(1, 2) ? ro.pick(marks) - used : (int64_t)ro.below(L + 1);
      cuts.push_back(std::min<int64_t>(std::max<int64_t>(cpos, 0), L));
    }
    cuts.push_back(L);
    std::sort(cuts.begin(), cuts.end());
    int64_t prev = 0;
    for (size_t k = 0; k < cuts.size(); k++) {
      int64_t len = cuts[k] - prev;
      prev = cuts[k];
      unsigned d = (unsigned)ro.below(100);
      s += (d < 60 ? "a" : d < 80 ? "b" : "A") + std::to_string(len) + " ";
      if (ro.chance(1, 6))
        s += (ro.chance(1, 2) ? "w" : "W") + std::to_string(ro.below(65533)) + " ";
    }
    std::vector<int64_t> omarks = {1, dsz, 2 * dsz, rate - 1, rate, rate + 1, 2 * rate, 2 * rate + 1, 4 * rate};
    int64_t O = ro.chance(2, 3) ? ro.pick(omarks) : 1 + (int64_t)ro.below(4 * rate);
    int opieces = 1 + (int)ro.below(3);
    int64_t left = O;
    for (int k = 0; k < opieces; k++) {
      int64_t len = (k == opieces - 1) ? left : (int64_t)ro.below(left + 1);
      left -= len;
      s += (ro.chance(2, 3) ? "s" : "q") + std::to_string(len) + " ";
    }
    Case c;
    c.set("op", "hash").set("dsz", dsz).set("mode", x4 ? "x4" : "single").setu("seed", ro.next() >> 16).set("sched", s);
    p.tasks[0].push_back(c);
  }
}
Case mixed_op(Rng& ro, int param, const Case& km, bool cheap) {
  unsigned d = (unsigned)ro.below(100);
  Case c;
  if (d < 30) {
    c = km;
    c.set("op", "sign").set("param", param).set("surf", (int64_t)ro.below(2)).set("node", pick_node(ro)).set("chk", cheap ? "c01" : "");
    if (ro.chance(1, 3))
      describe_msg(c, ro);
  } else if (d < 58) {
    c = wire_case(ro, param, km, "c02");
  } else if (d < 68) {
    c.set("op", "keygen").set("param", param).set("surf", (int64_t)ro.below(3)).set("node", pick_node(ro)).set("rs", "rand").setu("rseed", ro.next() >> 20).set("chk", "c07");
    if (ro.chance(1, 4))
      c.set("f.rng_err", "EAGAIN").set("f.rng_req", (int64_t)ro.below(2));
  } else if (d < 74) {
    c.set("op", "lowmc").set("param", param).set("surf", (int64_t)ro.below(2)).set("node", pick_node(ro));
    describe_key(c, ro, *model::params(param));
  } else if (d < 82) {
    c.set("op", "import").set("pb", ro.chance(3, 4) ? param : (int64_t)ro.below(256)).set("param", param).set("which", ro.chance(1, 2) ? "sk" : "pk").set("surf", (int64_t)ro.below(2));
    c.set("n", (int64_t)ro.below(100)).setu("kseed", ro.next() >> 20).set("chk", "c11").set("kpat", "rand");
  } else if (d < 88) {
    c = km;
    c.set("op", "export").set("param", param).set("which", ro.chance(1, 2) ? "sk" : "pk").set("surf", (int64_t)ro.below(2)).set("cap", ro.chance(1, 2) ? "size" : "size-1");
  } else if (d < 97) {
    c = km;
    static const std::vector<std::string> ovs = {"disjoint", "same", "plus4"};
    c.set("op", "nist").set("param", param).set("sub", ro.chance(1, 2) ? "sign" : "open").set("overlap", ro.pick(ovs)).set("ff", ro.chance(1, 2) ? "none" : "flip").setu("bit", ro.next() >> 8);
  } else {
    c.set("op", "sizes").set("pb", (int64_t)ro.below(256));
  }
  return c;
}
void gen_c15(Plan& p, bool thorough) {
  Rng r = rng_for(p.seed, {H("C15"), p.run});
  p.meta["solo"] = "1";
  int ntasks = 2 + (int)r.below(thorough ? 7 : 4);
  int nparams = 1 + (int)r.below(3);
  std::vector<int> ps;
  for (int i = 0; i < nparams; i++) {
    int q = i == 0 ? primary_param(p.run) : r.pick(ALL);
    if (!thorough && COST[q] > 9 && i > 0)
      q = 1 + (int)r.below(2);
    ps.push_back(q);
  }
  // shared read-only keys: one per parameter set in play
  std::vector<Case> kms;
  for (int q : ps)
    kms.push_back(keymsg_case(r, q));
  p.tasks.resize(ntasks);
  int budget = COST[ps[0]] > 9 && !thorough ? 2 : 4;
  for (int t = 0; t < ntasks; t++) {
    int nops = 1 + (int)r.below(budget);
    for (int i = 0; i < nops; i++) {
      Rng ro = rng_for(p.seed, {H("C15"), p.run, (uint64_t)t, (uint64_t)i});
      size_t w = ro.below(ps.size());
      Case c = mixed_op(ro, ps[w], kms[w], COST[ps[w]] <= 6);
      env_faults(c, ro, 50);
      p.tasks[t].push_back(c);
    }
  }
  // PCT-style: preemption budget d; the positions are resolved against the measured yield counts before the run
  int d = (int)r.below(5);
  p.meta["pct_d"] = std::to_string(d);
  p.sched_seed = r.next();
}
void gen_c16(Plan& p, bool thorough) {
  Rng r = rng_for(p.seed, {H("C16"), p.run});
  int prim = primary_param(p.run);
  p.tasks.resize(1);
  Case km = keymsg_case(r, prim);
  if (r.chance(1, 4))
    km.set("mlen", 0);
  static const std::vector<std::string> ovs = {"disjoint", "same", "plus4", "inside"};
  static const std::vector<std::string> ffs = {"none", "none", "trunc", "prefix", "flip", "extend", "pk", "arbitrary", "zerowin", "reroll", "foreign", "foreign"};
  static const std::vector<std::string> pvs = {"zero", "one", "max", "smlen", "smlen-3", "smlen-4", "wrap", "d", "d", "d"};
  {
    Case c;
    c.set("op", "nist").set("param", prim).set("sub", "keypair").set("node", pick_node(r)).set("rs", "rand").setu("rseed", r.next() >> 20);
    p.tasks[0].push_back(c);
    Case s;
    s.set("op", "sizes").set("pb", prim);
    p.tasks[0].push_back(s);
  }
  for (int i = 0; i < 3; i++) {
    Rng ro = rng_for(p.seed, {H("C16"), p.run, H("sign"), (uint64_t)i});
    Case c = km;
    if (i)
      describe_msg(c, ro);
    c.set("op", "nist").set("sub", "sign").set("node", pick_node(ro)).set("overlap", ovs[(p.run / 12 + i) % 3]);
    env_faults(c, ro, 30);
    p.tasks[0].push_back(c);
  }
  int n = thorough ? 24 : 12;
  for (int i = 0; i < n; i++) {
    Rng ro = rng_for(p.seed, {H("C16"), p.run, H("open"), (uint64_t)i});
    Case c = km;
    c.set("op", "nist").set("sub", "open").set("node", pick_node(ro)).set("overlap", ro.pick(ovs)).set("ff", i < 2 ? "none" : ro.pick(ffs)).set("pv", ro.pick(pvs));
    c.setu("n", ro.chance(1, 2) ? ro.below(9) : ro.next() >> 40).setu("bit", ro.next() >> 8).setu("wseed", ro.next() >> 20);
    if (i == 0)
      c.set("overlap", ovs[(p.run / 12) % 4]);
    env_faults(c, ro, 30);
    p.tasks[0].push_back(c);
  }
  // keys are interchangeable between the surfaces up to the parameter byte: derivation and validation through the
  // per-parameter surface against the model, export through one surface / import through the other
  {
    Case l;
    l.set("op", "lowmc").set("param", prim).set("surf", 1).set("node", pick_node(r));
    describe_key(l, r, *model::params(prim));
    p.tasks[0].push_back(l);
    for (int which = 0; which < 2; which++) {
      Case e = km;
      e.set("op", "export").set("which", which ? "sk" : "pk").set("surf", 1).set("cap", "size");
      p.tasks[0].push_back(e);
      Case i;
      i.set("op", "import").set("pb", prim).set("param", prim).set("which", which ? "sk" : "pk").set("surf", 1).set("n", 100).setu("kseed", r.next() >> 20).set("chk", "c11").set("kpat", "rand");
      p.tasks[0].push_back(i);
    }
    int other = (int)(1 + r.below(12));
    if (other != prim) { // a key of another parameter set must not pass the per-parameter importer
      Case i;
      i.set("op", "import").set("pb", other).set("param", prim).set("which", r.chance(1, 2) ? "sk" : "pk").set("surf", 1).set("n", 100).setu("kseed", r.next() >> 20).set("chk", "c11").set("kpat", "rand");
      p.tasks[0].push_back(i);
    }
  }
  // a message signed through one surface verifies through the other (sign checks both verifiers)
  Case x = km;
  x.set("op", "sign").set("surf", (int64_t)(p.run / 12 % 2)).set("node", pick_node(r)).set("chk", "c01,c03").set("kmode", "model");
  if (COST[prim] > 6 && !thorough)
    x.set("chk", "c01");
  p.tasks[0].push_back(x);
}
void gen_c17(Plan& p, bool thorough) {
  // the same mixed workload in every configuration: refusal table for all 256 values, then per parameter set
  // (keyed streams) completeness, wire faults, import/export, key generation
  p.tasks.resize(1);
  if (p.run == 0) {
    for (int pb = 0; pb < 256; pb++) {
      Case c;
      c.set("op", "sizes").set("pb", pb);
      p.tasks[0].push_back(c);
      Case i;
      i.set("op", "import").set("pb", pb).set("param", 1).set("which", (pb & 1) ? "sk" : "pk").set("surf", 0).set("n", 100).setu("kseed", 1000 + pb).set("chk", "c11").set("kpat", "rand");
      p.tasks[0].push_back(i);
    }
    return;
  }
  int param = (int)((p.run - 1) % 12) + 1;
  const model::Params& pp = *model::params(param);
  Rng r = rng_for(p.seed, {H("C17"), (uint64_t)param, p.run});
  Case km = keymsg_case(r, param);
  Case s = km;
  s.set("op", "sign").set("surf", (int64_t)r.below(2)).set("chk", COST[param] <= 6 || thorough ? "c01,c03" : "c01").set("kmode", "model");
  p.tasks[0].push_back(s);
  Case s2 = sign_case(r, param, "c01");
  s2.erase("node");
  s2.set("kmode", "lib");
  env_faults(s2, r, 100); // helpers that clear or mask buffers are compiled under instance switches too
  p.tasks[0].push_back(s2);
  {
    Case s3 = km;
    s3.set("op", "sign").set("surf", (int64_t)r.below(2)).set("chk", "c01").set("kmode", "model").set("f.heap", r.chance(1, 2) ? "ff" : "a5").set("f.stack", 255);
    p.tasks[0].push_back(s3);
  }
  for (int i = 0; i < (thorough ? 10 : 6); i++) {
    Case c = wire_case(r, param, km, "c02");
    c.erase("node");
    p.tasks[0].push_back(c);
  }
  for (int i = 0; i < 3; i++) {
    Case c = wire_case(r, param, km, "c05");
    c.erase("node");
    p.tasks[0].push_back(c);
  }
  Case kg;
  kg.set("op", "keygen").set("param", param).set("surf", (int64_t)r.below(3)).set("rs", "rand").setu("rseed", r.next() >> 20).set("chk", "c07");
  p.tasks[0].push_back(kg);
  Case lm;
  lm.set("op", "lowmc").set("param", param).set("surf", (int64_t)r.below(2));
  describe_key(lm, r, pp);
  p.tasks[0].push_back(lm);
  for (int which = 0; which < 2; which++) {
    Case e = km;
    e.set("op", "export").set("which", which ? "sk" : "pk").set("surf", (int64_t)r.below(2)).set("cap", "size");
    p.tasks[0].push_back(e);
    Case i;
    i.set("op", "import").set("pb", param).set("param", param).set("which", which ? "sk" : "pk").set("surf", (int64_t)r.below(2)).set("n", 100).setu("kseed", r.next() >> 20).set("chk", "c11").set("kpat", "rand");
    p.tasks[0].push_back(i);
  }
  // capacity boundary (size computations are #if ladders too), corrupted key, forced extreme challenge (the MAX_* buffer
  // bounds shrink with the enabled instances: the longest signature of each enabled set must still fit), entropy fault
  static const std::vector<std::string> caps = {"needed-1", "frac990", "needed", "hdr", "needed-64", "max-1"};
  for (int i = 0; i < 2; i++) {
    Case c = km;
    c.set("op", "sign").set("surf", (int64_t)r.below(2)).set("chk", "c06").set("cap", caps[(p.run / 12 * 2 + i) % caps.size()]);
    p.tasks[0].push_back(c);
  }
  {
    Case c = km;
    c.set("op", "export").set("which", r.chance(1, 2) ? "sk" : "pk").set("surf", (int64_t)r.below(2)).set("cap", "size-1");
    p.tasks[0].push_back(c);
    Case b = km;
    b.set("kpat", "rand");
    b.set("op", "signbad").set("surf", (int64_t)r.below(3)).set("cf", std::to_string(8 + r.below(3 * pp.n)));
    p.tasks[0].push_back(b);
    Case f = km;
    f.set("op", "sign").set("surf", (int64_t)r.below(2)).set("chk", "c13").set("cap", "max").set("place", "edge").setu("oseed", r.next() >> 20);
    if (pp.kkw)
      f.set("och", "max").set("opar", "cyc");
    else
      f.set("och", r.chance(1, 2) ? "all1" : "nonzero");
    p.tasks[0].push_back(f);
    Case g;
    g.set("op", "keygen").set("param", param).set("surf", (int64_t)r.below(3)).set("rs", "rand").setu("rseed", r.next() >> 20).set("chk", "c07").set("f.rng_err", "EAGAIN").set("f.rng_req", (int64_t)r.below(2));
    p.tasks[0].push_back(g);
  }
  if (8 * pp.ios - pp.n > 0) { // padding validation is compiled under instance switches as well (separately per surface and key kind)
    for (int sf = 0; sf < 2; sf++)
      for (int which = 0; which < 2; which++) {
        Case i;
        i.set("op", "import").set("pb", param).set("param", param).set("which", which ? "sk" : "pk").set("surf", sf).set("n", 100).setu("kseed", r.next() >> 20);
        i.set("chk", "c11").set("kpat", "rand").set("padf", (int64_t)(1 + r.below(which ? 7 : 3))).set("padv", (int64_t)(1 + 2 * r.below(64)));
        p.tasks[0].push_back(i);
      }
  }
  Case n1 = km;
  n1.set("op", "nist").set("sub", "sign");
  p.tasks[0].push_back(n1);
  Case n2 = km;
  n2.set("op", "nist").set("sub", "open").set("ff", "none").set("overlap", r.chance(1, 2) ? "same" : "disjoint");
  p.tasks[0].push_back(n2);
}
void gen_c18(Plan& p, bool thorough) {
  // run -> (parameter set, target, slice of allocation indices). ZKB++ calls make a handful of allocations (enumerated
  // completely in every run); KKW calls make thousands: complete in thorough, strided + both ends in quick.
  // Targets: sign, verify of a valid signature, of one with a random flipped byte, of a truncated one, keygen; thorough adds
  // one target per kind of field carrying the single defect, so that each kind is enumerated completely as well.
  static const char* targets[] = {"sign", "verify", "verifybad", "verifytrunc", "keygen"};
  static const std::vector<std::string> kkw_fields = {"challenge", "salt", "iSeedInfo", "cvInfo", "seedInfo", "aux", "input", "msgs", "C "};
  static const std::vector<std::string> zkb_fields = {"challenge", "salt", "commitment", "view", "seed_a", "seed_b", "inputshare3", "G "};
  int param = (int)(p.run % 12) + 1;
  const model::Params& pp = *model::params(param);
  const auto& fl = pp.kkw ? kkw_fields : zkb_fields;
  const uint64_t ntargets = thorough ? 5 + kkw_fields.size() : 5;
  int ti = (int)((p.run / 12) % ntargets);
  uint64_t slice = p.run / (12 * ntargets);
  Rng r = rng_for(p.seed, {H("C18"), (uint64_t)param, (uint64_t)ti});
  p.tasks.resize(1);
  Case km = keymsg_case(r, param);
  km.set("kpat", "rand").set("mlen", 40);
  km.set("op", "allocfail").set("target", targets[ti < 5 ? ti : 2]).set("node", (slice & 1) ? "sse2" : "avx2").setu("bit", r.next() >> 8).setu("rseed", r.next() >> 20);
  if (ti >= 5)
    km.set("vfield", fl[(size_t)(ti - 5) % fl.size()]);
  else if (ti == 2 && !thorough && slice > 0 && pp.kkw)
    km.set("vfield", fl[(slice + p.seed) % fl.size()]); // quick: one kind per seed for the expensive KKW calls
  int N = pp.kkw ? 4096 : 16;
  uint64_t nslices = thorough ? 16 : 2;
  if (slice < nslices && ti == 2 && !pp.kkw && !thorough) {
    // ZKB++ calls make a handful of allocations: every index x every kind of field carrying the single defect
    for (auto& vf : zkb_fields)
      for (int k = 0; k < N; k++) {
        Case c = km;
        c.set("vfield", vf).set("k", k).set("kexact", 1);
        p.tasks[0].push_back(c);
      }
  }
  if (slice < nslices) {
    for (int k = 0; k < N; k++) {
      if (thorough ? ((uint64_t)k % nslices != slice) : (pp.kkw && k >= 64 && k % 41 != (int)(p.seed % 41) && k % 41 != 7))
        continue;
      Case c = km;
      c.set("k", k).set("kexact", 1);
      p.tasks[0].push_back(c);
    }
    if (!thorough && pp.kkw) // the last indices of the call, whatever its allocation count turns out to be
      for (int j = 1; j <= 64; j++) {
        Case c = km;
        c.set("k", 0).set("kfromend", j); // count - j, whatever the count is
        p.tasks[0].push_back(c);
      }
  } else {
    // sampled double failures
    Rng ro = rng_for(p.seed, {H("C18"), p.run, H("double")});
    for (int i = 0; i < (thorough ? 60 : 20); i++) {
      Case c = km;
      c.setu("k", ro.next() >> 20).setu("k2", ro.next() >> 20);
      p.tasks[0].push_back(c);
    }
  }
}
} // namespace

uint64_t default_runs(const std::string& prop, const std::string& tier) {
  bool th = tier == "thorough";
  struct R {
    const char* p;
    uint64_t q, t;
  };
  static const R tab[] = {{"C01", 480, 4800},  {"C02", 600, 2400 + 384}, {"C03", 288, 2400}, {"C04", 120, 960},  {"C05", 480, 4800}, {"C06", 480, 2880},
                          {"C07", 288, 576},   {"C09", 480, 2400},       {"C10", 480, 1920},  {"C11", 160, 320},   {"C12", 144, 12 * 36},  {"C13", 721, 3601},
                          {"C14", 4800, 6000 + 4 * 507}, {"C15", 480, 7200},  {"C16", 288, 1920},  {"C17", 25, 49}, {"C18", 180, 12 * 14 * 16 + 12 * 14}};
  for (auto& r : tab)
    if (prop == r.p)
      return th ? r.t : r.q;
  return 0;
}

Plan gen_plan(const std::string& prop, const std::string& tier, uint64_t seed, uint64_t run) {
  Plan p;
  p.prop = prop;
  p.tier = tier;
  p.seed = seed;
  p.run = run;
  p.variant = G.variant;
  p.sched_seed = mix64(seed ^ mix64(run));
  bool th = tier == "thorough";
  if (prop == "C01")
    gen_c01(p, th);
  else if (prop == "C02")
    gen_c02(p, th);
  else if (prop == "C03")
    gen_c03(p, th);
  else if (prop == "C04")
    gen_c04(p, th);
  else if (prop == "C05")
    gen_c05(p, th);
  else if (prop == "C06")
    gen_c06(p, th);
  else if (prop == "C07")
    gen_c07(p, th);
  else if (prop == "C09")
    gen_c09(p, th);
  else if (prop == "C10")
    gen_c10(p, th);
  else if (prop == "C11")
    gen_c11(p, th);
  else if (prop == "C12")
    gen_c12(p, th);
  else if (prop == "C13")
    gen_c13(p, th);
  else if (prop == "C14")
    gen_c14(p, th);
  else if (prop == "C15")
    gen_c15(p, th);
  else if (prop == "C16")
    gen_c16(p, th);
  else if (prop == "C17")
    gen_c17(p, th);
  else if (prop == "C18")
    gen_c18(p, th);
  p.preempt.resize(p.tasks.size());
  return p;
}
} // namespace sim
