#include "util.hpp"
#include <cstdio>

namespace sim {
std::string hex64(uint64_t v) {
  char b[20];
  snprintf(b, sizeof b, "%016llx", (unsigned long long)v);
  return b;
}
static bool needs_quote(const std::string& v) {
  if (v.empty())
    return true;
  for (char c : v)
    if (c == ' ' || c == '"' || c == '\n' || c == '\t')
      return true;
  return false;
}
static std::string enc(const std::string& v) {
  if (!needs_quote(v))
    return v;
  std::string o = "\"";
  for (char c : v) {
    if (c == '"' || c == '\\')
      o.push_back('\\');
    if (c == '\n') {
      o += "\\n";
      continue;
    }
    o.push_back(c);
  }
  o.push_back('"');
  return o;
}
std::string Case::text() const {
  std::string o;
  auto it = kv.find("op");
  if (it != kv.end())
    o = "op=" + enc(it->second);
  for (auto& p : kv) {
    if (p.first == "op")
      continue;
    if (!o.empty())
      o.push_back(' ');
    o += p.first + "=" + enc(p.second);
  }
  return o;
}
Case Case::parse(const std::string& line) {
  Case c;
  size_t i = 0, n = line.size();
  while (i < n) {
    while (i < n && (line[i] == ' ' || line[i] == '\t'))
      i++;
    if (i >= n)
      break;
    size_t e = line.find('=', i);
    if (e == std::string::npos)
      break;
    std::string k = line.substr(i, e - i), v;
    i = e + 1;
    if (i < n && line[i] == '"') {
      i++;
      while (i < n && line[i] != '"') {
        if (line[i] == '\\' && i + 1 < n) {
          i++;
          v.push_back(line[i] == 'n' ? '\n' : line[i]);
        } else
          v.push_back(line[i]);
        i++;
      }
      i++;
    } else {
      size_t s = i;
      while (i < n && line[i] != ' ' && line[i] != '\t')
        i++;
      v = line.substr(s, i - s);
    }
    c.kv[k] = v;
  }
  return c;
}

std::string Plan::text() const {
  std::ostringstream o;
  o << "plan v1\n";
  Case h;
  h.set("prop", prop).set("variant", variant).set("tier", tier).setu("seed", seed).setu("run", run).setu("sched_seed", sched_seed);
  if (!clause.empty())
    h.set("clause", clause);
  if (!detail.empty())
    h.set("detail", detail);
  if (!loghash.empty())
    h.set("loghash", loghash);
  for (auto& m : meta)
    h.set("meta." + m.first, m.second);
  o << "head " << h.text() << "\n";
  for (size_t t = 0; t < tasks.size(); t++) {
    o << "task " << t;
    if (t < preempt.size() && !preempt[t].empty()) {
      o << " preempt";
      for (long p : preempt[t])
        o << " " << p;
    }
    o << "\n";
    for (auto& c : tasks[t])
      o << "  " << c.text() << "\n";
  }
  o << "end\n";
  return o.str();
}
Plan Plan::parse(const std::string& text) {
  Plan p;
  std::istringstream is(text);
  std::string line;
  int cur = -1;
  while (std::getline(is, line)) {
    if (line.empty() || line[0] == '#')
      continue;
    if (line.rfind("plan ", 0) == 0 || line == "end")
      continue;
    if (line.rfind("head ", 0) == 0) {
      Case h = Case::parse(line.substr(5));
      p.prop = h.s("prop");
      p.variant = h.s("variant");
      p.tier = h.s("tier");
      p.seed = h.u("seed");
      p.run = h.u("run");
      p.sched_seed = h.u("sched_seed");
      p.clause = h.s("clause");
      p.detail = h.s("detail");
      p.loghash = h.s("loghash");
      for (auto& kv : h.kv)
        if (kv.first.rfind("meta.", 0) == 0)
          p.meta[kv.first.substr(5)] = kv.second;
      continue;
    }
    if (line.rfind("task ", 0) == 0) {
      std::istringstream ls(line.substr(5));
      int t;
      ls >> t;
      cur = t;
      if ((int)p.tasks.size() <= t) {
        p.tasks.resize(t + 1);
        p.preempt.resize(t + 1);
      }
      std::string w;
      if (ls >> w && w == "preempt") {
        long v;
        while (ls >> v)
          p.preempt[t].push_back(v);
      }
      continue;
    }
    if (cur >= 0) {
      Case c = Case::parse(line);
      if (c.has("op"))
        p.tasks[cur].push_back(c);
    }
  }
  p.preempt.resize(p.tasks.size());
  return p;
}
std::string json_escape(const std::string& s) {
  std::string o;
  for (unsigned char c : s) {
    switch (c) {
    case '"':
      o += "\\\"";
      break;
    case '\\':
      o += "\\\\";
      break;
    case '\n':
      o += "\\n";
      break;
    case '\t':
      o += "\\t";
      break;
    default:
      if (c < 0x20) {
        char b[8];
        snprintf(b, sizeof b, "\\u%04x", c);
        o += b;
      } else
        o.push_back((char)c);
    }
  }
  return o;
}
} // namespace sim
