// Operations on keys: key generation under a scripted entropy source (C07), LowMC through the key API (C10),
// key import/export against the simulated key store (C11, C06), size/parameter queries (C11, C13, C17),
// the NIST-style surface (C16).
#include "world.hpp"
#include <algorithm>
#include <cerrno>
#include <cstring>

namespace sim {
namespace {
std::string family_tag(const Case& c) {
  if (!G.cpu_seam)
    return G.variant;
  return G.variant + "@" + (G.node_override.empty() ? c.s("node", "avx2") : G.node_override);
}
static void setbit_be(bytes& b, size_t i) { b[i >> 3] |= (uint8_t)(0x80 >> (i & 7)); }

bytes entropy_stream(const Case& c, size_t n) {
  bytes s(n, 0);
  std::string rs = c.s("rs", "rand");
  if (rs == "ones")
    std::fill(s.begin(), s.end(), 0xff);
  else if (rs == "unit")
    setbit_be(s, (size_t)(c.u("rbit") % (8 * n)));
  else if (rs == "rand") {
    Rng r(mix64(c.u("rseed", 1) ^ 0x656e74ULL));
    r.fill(s.data(), n);
  } else if (rs == "hex") {
    bytes h = c.hexv("rhex");
    std::copy(h.begin(), h.begin() + std::min(n, h.size()), s.begin());
  }
  return s;
}

// is `field` (ios bytes, padding masked) found as a window of the delivered bytes [0,consumed) at an offset not
// overlapping [ex_off, ex_off+ios)? returns offset or -1. Order- and request-count-agnostic on purpose.
long find_window(const bytes& stream, size_t consumed, const bytes& field, int n, int ios, long ex_off, long start = 0) {
  uint8_t mask = (uint8_t)(0xff << (8 * ios - n));
  for (long off = start; off + ios <= (long)consumed; off++) {
    if (ex_off >= 0 && off < ex_off + ios && ex_off < off + ios)
      continue;
    bool ok = true;
    for (int i = 0; i < ios && ok; i++) {
      uint8_t v = stream[off + i];
      if (i == ios - 1)
        v &= mask;
      ok = v == field[i];
    }
    if (ok)
      return off;
  }
  return -1;
}

// ------------------------------------------------------------------------------------------------ keygen (C07)
void op_keygen(const Case& c, TaskCtx& t, Outcome& o) {
  int param = (int)c.i("param", 1), surf = (int)c.i("surf", 0);
  const model::Params* pp = model::params(param);
  if (!pp || !generic_enabled(param) || !surface_available(surf, param)) {
    o.skipped = true;
    return;
  }
  const model::Params& p = *pp;
  const size_t SL = 256;
  bytes stream = entropy_stream(c, SL);
  t.env.rng_buf = stream.data();
  t.env.rng_len = SL;
  bool inject = false;
  std::string fk;
  if (c.has("f.rng_err")) {
    t.env.rng_fail_req = (int)c.i("f.rng_req", 0);
    t.env.rng_fail_kind = RNGF_ERR;
    std::string e = c.s("f.rng_err");
    t.env.rng_fail_errno = e == "EINTR" ? EINTR : e == "ENOSYS" ? ENOSYS : e == "EIO" ? EIO : EAGAIN;
    inject = true;
    fk = "rng_err_" + e;
  } else if (c.has("f.rng_short")) {
    t.env.rng_fail_req = (int)c.i("f.rng_req", 0);
    t.env.rng_fail_kind = RNGF_SHORT;
    t.env.rng_short_n = c.i("f.rng_short"); // -1 = len-1
    inject = true;
    fk = "rng_short_" + c.s("f.rng_short");
  }
  size_t pksz = 1 + 2 * p.ios, sksz = 1 + 3 * p.ios;
  bytes pk(std::max<size_t>(tc_sizeof_publickey, pksz) + 8, 0x3c), sk(std::max<size_t>(tc_sizeof_privatekey, sksz) + 8, 0x3c);
  bytes pkser, skser;
  int rc;
  if (surf == 0) {
    rc = libcall(t, [&] { return picnic_keygen(param, pk.data(), sk.data()); });
    pkser.assign(pk.begin(), pk.begin() + pksz);
    skser.assign(sk.begin(), sk.begin() + sksz);
  } else if (surf == 1) {
    rc = libcall(t, [&] { return param_api(param).keygen(pk.data(), sk.data()); });
    pkser.push_back((uint8_t)param);
    pkser.insert(pkser.end(), pk.begin(), pk.begin() + pksz - 1);
    skser.push_back((uint8_t)param);
    skser.insert(skser.end(), sk.begin(), sk.begin() + sksz - 1);
  } else {
    const NistApi& na = nist_api(param);
    EdgeBuf pkb(na.consts[1], nullptr, 0x3c), skb(na.consts[0], nullptr, 0x3c);
    rc = libcall(t, [&] { return na.keypair(pkb.p, skb.p); });
    pkser.assign(pkb.p, pkb.p + pkb.n);
    skser.assign(skb.p, skb.p + skb.n);
  }
  bool fired = inject && t.env.rng_req > t.env.rng_fail_req; // the failing request was actually reached
  bool exhausted = t.env.rng_exhausted;
  o.digest = digest_of(rc, 0, rc == 0 ? skser.data() : nullptr, rc == 0 ? skser.size() : 0);
  o.summary = "rc=" + std::to_string(rc) + " requests=" + std::to_string(t.env.rng_req) + " consumed=" + std::to_string(t.env.rng_pos);
  if (G.solo_pass)
    return; // the solo execution only supplies the result; oracle clauses are evaluated in the history run
  if (t.stats) {
    t.stats->hit("op.keygen");
    if (fired)
      t.stats->hit("fault." + fk + ".fired");
    else if (inject)
      t.stats->hit("fault." + fk + ".not_reached");
    t.stats->tuple(std::string(p.name) + "|" + family_tag(c) + "|keygen|surf" + std::to_string(surf) + "|" + (inject ? fk + "@req" + std::to_string(t.env.rng_fail_req) : c.s("rs", "rand")) +
                   "|" + (rc == 0 ? "ok" : "err"));
  }
  if (!c.has("chk") || c.s("chk").find("c07") == std::string::npos)
    return;
  if (rc == 0 && t.env.rng_req == 0) {
    o.machinery = true;
    o.fail("MACHINERY.entropy_seam_not_reached", "keygen succeeded without consulting the interposed getrandom");
    return;
  }
  if (fired || exhausted) {
    // a short read of exactly the requested length is no failure
    bool real_failure = exhausted || t.env.rng_fail_kind == RNGF_ERR ||
                        (t.env.rng_fail_kind == RNGF_SHORT && t.env.rng_fail_req < 8 &&
                         (t.env.rng_short_n < 0 ? t.env.rng_req_len[t.env.rng_fail_req] > 0 : (size_t)t.env.rng_short_n < t.env.rng_req_len[t.env.rng_fail_req]));
    if (real_failure && rc == 0)
      CHECK_FAIL("C07.key_returned_despite_rng_failure", std::string(p.name) + " surf" + std::to_string(surf) + ": keygen returned 0 although entropy request " +
                                                                      std::to_string(t.env.rng_fail_req) + " failed (" + fk + ")");
    if (real_failure)
      return;
  }
  if (rc != 0)
    FAIL_STOP("C07.keygen_failed", std::string(p.name) + " surf" + std::to_string(surf) + ": keygen failed with a working entropy source");
  // layout
  if (skser[0] != param || pkser[0] != param)
    CHECK_FAIL("C07.wrong_parameter_byte", "key carries parameter byte " + std::to_string(skser[0]) + "/" + std::to_string(pkser[0]));
  bytes ksk(skser.begin() + 1, skser.begin() + 1 + p.ios), kC(skser.begin() + 1 + p.ios, skser.begin() + 1 + 2 * p.ios), kpt(skser.begin() + 1 + 2 * p.ios, skser.end());
  bytes pC(pkser.begin() + 1, pkser.begin() + 1 + p.ios), ppt(pkser.begin() + 1 + p.ios, pkser.end());
  uint8_t padm = (uint8_t)~(0xff << (8 * p.ios - p.n));
  if ((ksk.back() & padm) || (kC.back() & padm) || (kpt.back() & padm))
    CHECK_FAIL("C07.padding_bits_set", std::string(p.name) + ": padding bits of a generated key are not zero");
  // exactly the delivered bits: sk and pt are disjoint windows of the delivered bytes
  size_t consumed = t.env.rng_pos;
  bool found = false;
  for (long a = find_window(stream, consumed, ksk, p.n, p.ios, -1); a >= 0 && !found; a = find_window(stream, consumed, ksk, p.n, p.ios, -1, a + 1))
    if (find_window(stream, consumed, kpt, p.n, p.ios, a) >= 0)
      found = true;
  if (!found)
    CHECK_FAIL("C07.key_bits_not_the_delivered_entropy",
                        std::string(p.name) + " surf" + std::to_string(surf) + " stream=" + c.s("rs") + (c.has("rbit") ? " bit " + c.s("rbit") : "") +
                            ": secret key and plaintext are not two disjoint " + std::to_string(p.n) + "-bit windows of the " + std::to_string(consumed) + " delivered bytes (sk=" +
                            model::hex(ksk) + " pt=" + model::hex(kpt) + ")");
  // public key = LowMC(pt) under sk, embedded consistently
  bytes Cm = model::lowmc_encrypt_bytes(p, ksk, kpt);
  if (Cm != pC)
    CHECK_FAIL("C07.public_key_not_lowmc", std::string(p.name) + " " + family_tag(c) + ": public key is not the LowMC encryption of the plaintext under the key");
  if (kC != pC || kpt != ppt)
    CHECK_FAIL("C07.private_key_embeds_other_public_key", std::string(p.name) + ": private key does not embed the returned public key");
  // validation and derivation agree (generic surface, clean environment)
  bytes skst = skser, pkst = pkser;
  skst.resize(std::max<size_t>(tc_sizeof_privatekey, skst.size()), 0x77);
  pkst.resize(std::max<size_t>(tc_sizeof_publickey, pkst.size()), 0x77);
  if (cleancall([&] { return picnic_validate_keypair(skst.data(), pkst.data()); }) != 0)
    CHECK_FAIL("C07.generated_pair_does_not_validate", std::string(p.name) + ": picnic_validate_keypair rejects the generated pair");
  bytes pk2(pkst.size(), 0);
  if (cleancall([&] { return picnic_sk_to_pk(skst.data(), pk2.data()); }) != 0 || memcmp(pk2.data(), pkser.data(), pkser.size()) != 0)
    CHECK_FAIL("C07.sk_to_pk_disagrees", std::string(p.name) + ": picnic_sk_to_pk of the generated private key differs from the returned public key");
  if (t.stats) {
    t.stats->hit("c07.keys_checked");
    if (c.s("rs") == "unit") {
      bool any = false;
      for (auto b : ksk)
        any |= b != 0;
      for (auto b : kpt)
        any |= b != 0;
      t.stats->hit(any ? "c07.unit_bit_reached_key" : "c07.unit_bit_in_unused_position");
    }
  }
}

// ------------------------------------------------------------------------------------------------ LowMC through the key API (C10)
void op_lowmc(const Case& c, TaskCtx& t, Outcome& o) {
  int param = (int)c.i("param", 1), surf = (int)c.i("surf", 0);
  const model::Params* pp = model::params(param);
  if (!pp || !generic_enabled(param) || !surface_available(surf, param)) {
    o.skipped = true;
    return;
  }
  const model::Params& p = *pp;
  model::Key k = key_from_case(c, p); // C by the model
  model::Key junk = k;
  std::fill(junk.C.begin(), junk.C.end(), 0xEE); // the stored ciphertext must not matter to derivation
  junk.C[p.ios - 1] &= (uint8_t)(0xff << (8 * p.ios - p.n));
  bytes skst = surf == 1 ? param_sk_struct(junk) : generic_sk_struct(junk);
  bytes pkst(surf == 1 ? std::max<size_t>(tc_param_struct_sizes[param][0], 2 * p.ios) : std::max<size_t>(tc_sizeof_publickey, 1 + 2 * p.ios), 0x11);
  int rc = libcall(t, [&] { return surf == 1 ? param_api(param).sk_to_pk(skst.data(), pkst.data()) : picnic_sk_to_pk(skst.data(), pkst.data()); });
  size_t o0 = surf == 1 ? 0 : 1;
  bytes C(pkst.begin() + o0, pkst.begin() + o0 + p.ios), pt(pkst.begin() + o0 + p.ios, pkst.begin() + o0 + 2 * p.ios);
  o.digest = digest_of(rc, 0, pkst.data(), o0 + 2 * p.ios);
  o.summary = "rc=" + std::to_string(rc) + " C=" + model::hex(C).substr(0, 16);
  if (G.solo_pass)
    return; // the solo execution only supplies the result; oracle clauses are evaluated in the history run
  if (t.stats) {
    t.stats->hit("op.lowmc");
    t.stats->tuple(std::string("lowmc-") + std::to_string(p.n) + "-" + std::to_string(p.r) + "|" + family_tag(c) + "|surf" + std::to_string(surf) + "|" + c.s("kpat", "rand"));
  }
  if (rc != 0)
    FAIL_STOP("C10.sk_to_pk_failed", std::string(p.name) + ": sk_to_pk returned " + std::to_string(rc));
  if (C != k.C)
    CHECK_FAIL(owned("C10.ciphertext_differs_from_specification", {"C16"}),
                        std::string("LowMC ") + std::to_string(p.n) + "/" + std::to_string(p.r) + " via " + p.name + " on " + family_tag(c) + " surf" + std::to_string(surf) + " key pattern " +
                            c.s("kpat", "rand") + (c.has("kbit") ? " bit " + c.s("kbit") : "") + ": got " + model::hex(C) + " expected " + model::hex(k.C));
  if (pt != k.pt || (surf == 0 && pkst[0] != param))
    CHECK_FAIL(owned("C10.public_key_layout", {"C16"}), std::string(p.name) + ": derived public key does not carry the plaintext / parameter byte");
  // validation recomputes the same encryption: accepts the true pair, rejects a pair with one ciphertext bit off
  bytes sk_ok = surf == 1 ? param_sk_struct(k) : generic_sk_struct(k), pk_ok = surf == 1 ? param_pk_struct(k) : generic_pk_struct(k);
  int v = libcall(t, [&] { return surf == 1 ? param_api(param).validate_keypair(sk_ok.data(), pk_ok.data()) : picnic_validate_keypair(sk_ok.data(), pk_ok.data()); });
  if (v != 0)
    CHECK_FAIL(owned("C10.validate_rejects_true_pair", {"C16"}), std::string(p.name) + " " + family_tag(c) + ": validate_keypair rejects (sk, LowMC_sk(pt))");
  model::Key bad = k;
  size_t fb = (size_t)(c.u("kseed", 1) % p.n);
  bad.C[fb >> 3] ^= (uint8_t)(0x80 >> (fb & 7));
  bytes sk_b = surf == 1 ? param_sk_struct(bad) : generic_sk_struct(bad), pk_b = surf == 1 ? param_pk_struct(bad) : generic_pk_struct(bad);
  v = libcall(t, [&] { return surf == 1 ? param_api(param).validate_keypair(sk_b.data(), pk_b.data()) : picnic_validate_keypair(sk_b.data(), pk_b.data()); });
  if (v == 0)
    CHECK_FAIL(owned("C10.validate_accepts_wrong_ciphertext", {"C16"}), std::string(p.name) + " " + family_tag(c) + ": validate_keypair accepts a pair whose ciphertext bit " + std::to_string(fb) + " is flipped");
}

// ------------------------------------------------------------------------------------------------ LowMC in bulk (C10)
// Volume for data-dependent slips (a shortcut taken when some state bits happen to be zero is reached with probability
// 2^-25..2^-30 per evaluation): `count` evaluations per operation, keys/plaintexts from one seeded stream mixing random,
// low-weight and high-weight words; every ciphertext compared with the model.
void op_lowmcbulk(const Case& c, TaskCtx& t, Outcome& o) {
  int param = (int)c.i("param", 1), surf = (int)c.i("surf", 0);
  const model::Params* pp = model::params(param);
  if (!pp || !generic_enabled(param) || !surface_available(surf, param)) {
    o.skipped = true;
    return;
  }
  const model::Params& p = *pp;
  uint64_t count = c.u("count", 1000);
  Rng r(mix64(c.u("seed", 1) ^ 0x62756c6bULL));
  bytes skst(surf == 1 ? std::max<size_t>(tc_param_struct_sizes[param][1], 3 * p.ios) : std::max<size_t>(tc_sizeof_privatekey, 1 + 3 * p.ios), 0);
  bytes pkst(surf == 1 ? std::max<size_t>(tc_param_struct_sizes[param][0], 2 * p.ios) : std::max<size_t>(tc_sizeof_publickey, 1 + 2 * p.ios), 0);
  size_t o0 = surf == 1 ? 0 : 1;
  if (surf == 0)
    skst[0] = (uint8_t)param;
  uint8_t mask = (uint8_t)(0xff << (8 * p.ios - p.n));
  Fnv f;
  uint64_t done = 0;
  for (uint64_t i = 0; i < count; i++) {
    uint8_t* ksk = skst.data() + o0;
    uint8_t* kpt = skst.data() + o0 + 2 * p.ios;
    unsigned mode = (unsigned)r.below(8);
    for (int b = 0; b < p.ios; b++) {
      uint8_t a = (uint8_t)(r.next() >> 56), d = (uint8_t)(r.next() >> 56);
      if (mode == 6) { // sparse
        a &= (uint8_t)(r.next() >> 56) & (uint8_t)(r.next() >> 56);
        d &= (uint8_t)(r.next() >> 56) & (uint8_t)(r.next() >> 56);
      } else if (mode == 7) { // dense
        a |= (uint8_t)(r.next() >> 56) | (uint8_t)(r.next() >> 56);
        d |= (uint8_t)(r.next() >> 56) | (uint8_t)(r.next() >> 56);
      }
      ksk[b] = a;
      kpt[b] = d;
    }
    ksk[p.ios - 1] &= mask;
    kpt[p.ios - 1] &= mask;
    int rc = libcall(t, [&] { return surf == 1 ? param_api(param).sk_to_pk(skst.data(), pkst.data()) : picnic_sk_to_pk(skst.data(), pkst.data()); });
    model::BV k = model::bv_from_bytes(ksk, p.n), x = model::bv_from_bytes(kpt, p.n);
    uint8_t exp[32];
    model::bv_to_bytes(model::lowmc_encrypt_fast(p.n, p.r, k, x), exp, p.ios);
    done++;
    if (rc != 0 || memcmp(exp, pkst.data() + o0, p.ios) != 0) {
      o.digest = f.h;
      o.summary = "mismatch at evaluation " + std::to_string(i);
      if (t.stats)
        t.stats->hit("c10.bulk_evaluations", (long)done);
      CHECK_FAIL("C10.ciphertext_differs_from_specification",
                 std::string("LowMC ") + std::to_string(p.n) + "/" + std::to_string(p.r) + " via " + p.name + " on " + family_tag(c) + " surf" + std::to_string(surf) + ", bulk evaluation " +
                     std::to_string(i) + " of seed " + c.s("seed") + ": key " + model::hex(ksk, p.ios) + " plaintext " + model::hex(kpt, p.ios) + " got " + model::hex(pkst.data() + o0, p.ios) +
                     " expected " + model::hex(exp, p.ios));
      return;
    }
    f.buf(exp, 4);
  }
  o.digest = f.h;
  o.summary = std::to_string(count) + " evaluations";
  if (t.stats) {
    t.stats->hit("op.lowmcbulk");
    t.stats->hit("c10.bulk_evaluations", (long)done);
    t.stats->tuple(std::string("lowmc-") + std::to_string(p.n) + "-" + std::to_string(p.r) + "|" + family_tag(c) + "|surf" + std::to_string(surf) + "|bulk");
  }
}

// ------------------------------------------------------------------------------------------------ key store: import (C11, C05)
void op_import(const Case& c, TaskCtx& t, Outcome& o) {
  int pb = (int)c.i("pb", 1), surf = (int)c.i("surf", 0), q = (int)c.i("param", pb);
  bool sk = c.s("which", "pk") == "sk";
  if (surf == 1 && (!model::params(q) || !surface_available(1, q) || !generic_enabled(q))) {
    o.skipped = true;
    return;
  }
  const model::Params* pp = model::params(pb);
  bool enabled = pp && ((G.enabled_mask >> pb) & 1);
  size_t nfields = sk ? 3 : 2;
  size_t n = (size_t)c.i("n", 0);
  Rng r(mix64(c.u("kseed", 1) ^ 0x696d70ULL));
  bytes ser;
  bool padzero = true;
  size_t size = 0;
  if (pp) {
    const model::Params& p = *pp;
    model::Key k = key_from_case(c, p);
    ser = sk ? model::ser_sk(k) : model::ser_pk(k);
    size = ser.size();
    int padbits = 8 * p.ios - p.n;
    if (padbits && c.has("padf")) {
      // padf: bit mask over the fields that get padding value padv
      unsigned fm = (unsigned)c.i("padf");
      for (size_t f = 0; f < nfields; f++)
        if (fm & (1u << f)) {
          // one value for all selected fields, or an own value per field (padv0/padv1/padv2)
          unsigned pv = (unsigned)c.i("padv" + std::to_string(f), c.i("padv")) & ((1u << padbits) - 1);
          ser[1 + (f + 1) * p.ios - 1] |= (uint8_t)pv;
          if (pv)
            padzero = false;
        }
      if (t.stats && !padzero)
        t.stats->hit("fault.disk_padding_bits");
    }
    while (ser.size() < n)
      ser.push_back((uint8_t)(r.next() >> 56));
  } else {
    ser = r.take(std::max<size_t>(n, 1));
    ser[0] = (uint8_t)pb;
    if (t.stats)
      t.stats->hit("fault.disk_param_byte_invalid");
  }
  if (n < size && t.stats)
    t.stats->hit("fault.disk_short_buffer");
  EdgeBuf buf(n, ser.data());
  buf.readonly(true);
  size_t stsz = surf == 1 ? tc_param_struct_sizes[q][sk ? 1 : 0] : (sk ? tc_sizeof_privatekey : tc_sizeof_publickey);
  bytes st(stsz + 16, 0x77);
  int rc = libcall(t, [&] {
    if (surf == 1)
      return sk ? param_api(q).read_private_key(st.data(), buf.p, n) : param_api(q).read_public_key(st.data(), buf.p, n);
    return sk ? picnic_read_private_key(st.data(), buf.p, n) : picnic_read_public_key(st.data(), buf.p, n);
  });
  buf.readonly(false);
  bool expect = enabled && n >= size && padzero && (surf == 0 || pb == q);
  o.digest = digest_of(rc, 0, rc == 0 ? st.data() : nullptr, rc == 0 ? (surf == 1 ? size - 1 : size) : 0);
  o.summary = "rc=" + std::to_string(rc) + " pb=" + std::to_string(pb) + " n=" + std::to_string(n) + " expect=" + (expect ? "ok" : "reject");
  if (G.solo_pass)
    return; // the solo execution only supplies the result; oracle clauses are evaluated in the history run
  if (t.stats) {
    t.stats->hit("op.import");
    t.stats->tuple(std::string("import|") + (sk ? "sk" : "pk") + "|surf" + std::to_string(surf) + "|" + (pp ? pp->name : "invalid") + "|" + (n < size ? "short" : n == size ? "exact" : "long") +
                   "|" + (padzero ? "pad0" : "pad!") + "|" + (rc == 0 ? "ok" : "reject"));
  }
  if (memcmp(buf.p, ser.data(), n) != 0)
    CHECK_FAIL("C05.const_input_modified", "key import modified its input buffer");
  if (!c.has("chk") || c.s("chk").find("c11") == std::string::npos)
    return;
  std::string what = std::string(sk ? "read_private_key" : "read_public_key") + " surf" + std::to_string(surf) + " parameter byte " + std::to_string(pb) + " length " + std::to_string(n);
  if (expect && rc != 0)
    CHECK_FAIL(owned("C11.import_rejected_valid_key", {"C16"}), what + ": rejected a well-formed key");
  if (!expect && rc == 0)
    CHECK_FAIL(owned("C11.import_accepted_invalid_key", {"C16"}), what + ": accepted (" + (!enabled ? "unknown/disabled parameter byte" : n < size ? "buffer shorter than the key" : !padzero ? "non-zero padding bits" : "foreign parameter byte") + ")");
  if (rc == 0) {
    size_t o0 = surf == 1 ? 1 : 0;
    if (memcmp(st.data(), ser.data() + o0, size - o0) != 0)
      CHECK_FAIL(owned("C11.imported_key_differs", {"C16"}), what + ": imported key bytes differ from the encoded key");
    // export reproduces the bytes
    bytes out(size + 8, 0x42);
    int w = cleancall([&] {
      if (surf == 1)
        return sk ? param_api(q).write_private_key(st.data(), out.data(), out.size()) : param_api(q).write_public_key(st.data(), out.data(), out.size());
      return sk ? picnic_write_private_key(st.data(), out.data(), out.size()) : picnic_write_public_key(st.data(), out.data(), out.size());
    });
    if (w != (int)size || memcmp(out.data(), ser.data(), size) != 0)
      CHECK_FAIL(owned("C11.roundtrip_not_identity", {"C16"}), what + ": export after import returned " + std::to_string(w) + " / different bytes");
    if (surf == 0) {
      int gp = cleancall([&] { return sk ? picnic_get_private_key_param(st.data()) : picnic_get_public_key_param(st.data()); });
      if (gp != pb)
        CHECK_FAIL("C11.param_getter", what + ": parameter getter returned " + std::to_string(gp));
    }
    if (t.stats)
      t.stats->hit("c11.roundtrips");
  }
}

// ------------------------------------------------------------------------------------------------ key store: export (C06, C11)
void op_export(const Case& c, TaskCtx& t, Outcome& o) {
  int param = (int)c.i("param", 1), surf = (int)c.i("surf", 0);
  bool sk = c.s("which", "pk") == "sk";
  const model::Params* pp = model::params(param);
  if (!pp || !generic_enabled(param) || !surface_available(surf, param)) {
    o.skipped = true;
    return;
  }
  const model::Params& p = *pp;
  model::Key k = key_from_case(c, p);
  bytes ser = sk ? model::ser_sk(k) : model::ser_pk(k);
  size_t size = ser.size();
  std::string cs = c.s("cap", "size");
  size_t cap = cs.rfind("size", 0) == 0 ? (size_t)std::max<long>(0, (long)size + (cs.size() > 4 ? std::stol(cs.substr(4)) : 0)) : (size_t)std::stoull(cs);
  bytes st = surf == 1 ? (sk ? param_sk_struct(k) : param_pk_struct(k)) : (sk ? generic_sk_struct(k) : generic_pk_struct(k));
  uint8_t fill = 0xC7;
  EdgeBuf out(cap, nullptr, fill);
  int rc = libcall(t, [&] {
    if (surf == 1)
      return sk ? param_api(param).write_private_key(st.data(), out.p, cap) : param_api(param).write_public_key(st.data(), out.p, cap);
    return sk ? picnic_write_private_key(st.data(), out.p, cap) : picnic_write_public_key(st.data(), out.p, cap);
  });
  o.digest = digest_of(rc, 0, rc > 0 ? out.p : nullptr, rc > 0 ? std::min<size_t>((size_t)rc, cap) : 0);
  o.summary = "rc=" + std::to_string(rc) + " cap=" + std::to_string(cap) + " size=" + std::to_string(size);
  if (G.solo_pass)
    return; // the solo execution only supplies the result; oracle clauses are evaluated in the history run
  if (t.stats) {
    t.stats->hit("op.export");
    t.stats->hit(cap < size ? "c06.export_cap_below_size" : "c06.export_cap_sufficient");
    t.stats->tuple(std::string(p.name) + "|export|" + (sk ? "sk" : "pk") + "|surf" + std::to_string(surf) + "|" + (cap < size ? "short" : cap == size ? "exact" : "long") + "|" + (rc > 0 ? "ok" : "err"));
  }
  std::string what = std::string(p.name) + " " + (sk ? "write_private_key" : "write_public_key") + " surf" + std::to_string(surf) + " capacity " + std::to_string(cap);
  if (cap < size) {
    if (rc > 0)
      CHECK_FAIL("C06.export_success_with_short_buffer", what + ": returned " + std::to_string(rc) + " although the key needs " + std::to_string(size) + " bytes");
  } else {
    if (rc != (int)size)
      CHECK_FAIL("C06.export_failed_with_sufficient_buffer", what + ": returned " + std::to_string(rc) + ", expected " + std::to_string(size));
    if (memcmp(out.p, ser.data(), size) != 0)
      CHECK_FAIL(owned("C11.exported_form", {"C16"}), what + ": exported bytes are not parameter byte || key fields");
    for (size_t i = size; i < cap; i++)
      if (out.p[i] != fill)
        CHECK_FAIL("C06.export_wrote_beyond_len", what + ": byte " + std::to_string(i) + " beyond the key was modified");
  }
}

// ------------------------------------------------------------------------------------------------ size / parameter queries for one parameter value
void op_sizes(const Case& c, TaskCtx& t, Outcome& o) {
  int pb = (int)c.i("pb", 0);
  const model::Params* pp = model::params(pb);
  bool expect_enabled = pp != nullptr && ((G.enabled_mask >> pb) & 1);
  size_t ss = libcall(t, [&] { return picnic_signature_size(pb); });
  size_t sks = libcall(t, [&] { return picnic_get_private_key_size(pb); });
  size_t pks = libcall(t, [&] { return picnic_get_public_key_size(pb); });
  const char* name = libcall(t, [&] { return picnic_get_param_name(pb); });
  Fnv f;
  f.u64(ss);
  f.u64(sks);
  f.u64(pks);
  f.str(name ? name : "(null)");
  o.digest = f.h;
  o.summary = "sig=" + std::to_string(ss) + " sk=" + std::to_string(sks) + " pk=" + std::to_string(pks);
  if (G.solo_pass)
    return; // the solo execution only supplies the result; oracle clauses are evaluated in the history run
  if (t.stats) {
    t.stats->hit("op.sizes");
    t.stats->tuple("sizes|" + std::to_string(pb) + "|" + (ss ? "enabled" : "refused"));
  }
  std::string what = "parameter value " + std::to_string(pb);
  {
    // parameter getters on in-memory keys carrying this byte: the byte itself if enabled, INVALID (0) otherwise
    bytes skq(tc_sizeof_privatekey, 0x5a), pkq(tc_sizeof_publickey, 0x5a);
    skq[0] = pkq[0] = (uint8_t)pb;
    int g1 = libcall(t, [&] { return picnic_get_private_key_param(skq.data()); });
    int g2 = libcall(t, [&] { return picnic_get_public_key_param(pkq.data()); });
    int want = expect_enabled ? pb : 0;
    if (g1 != want || g2 != want)
      CHECK_FAIL(pp && !expect_enabled ? "C17.disabled_parameter_not_refused" : "C11.param_getter", what + ": parameter getters return " + std::to_string(g1) + "/" + std::to_string(g2) +
                                                                                                          " for an in-memory key carrying that byte, expected " + std::to_string(want));
  }
  if (!expect_enabled) {
    if (ss || sks || pks)
      CHECK_FAIL(pp ? "C17.disabled_parameter_not_refused" : "C11.size_query_for_invalid_parameter",
                          what + ": size queries return " + std::to_string(ss) + "/" + std::to_string(sks) + "/" + std::to_string(pks) + " instead of 0");
    // every operation must refuse it
    bytes sk(tc_sizeof_privatekey, 0), pk(tc_sizeof_publickey, 0), sig(64, 0), buf(128, 0);
    sk[0] = pk[0] = buf[0] = (uint8_t)pb;
    size_t sl = sig.size();
    bytes pk2(tc_sizeof_publickey, 0), sk2(tc_sizeof_privatekey, 0);
    struct {
      const char* n;
      int rc;
    } calls[] = {
        {"keygen", libcall(t, [&] { return picnic_keygen(pb, pk2.data(), sk2.data()); })},
        {"sign", libcall(t, [&] { return picnic_sign(sk.data(), buf.data(), 8, sig.data(), &sl); })},
        {"verify", libcall(t, [&] { return picnic_verify(pk.data(), buf.data(), 8, sig.data(), sig.size()); })},
        {"sk_to_pk", libcall(t, [&] { return picnic_sk_to_pk(sk.data(), pk2.data()); })},
        {"validate_keypair", libcall(t, [&] { return picnic_validate_keypair(sk.data(), pk.data()); })},
        {"read_public_key", libcall(t, [&] { return picnic_read_public_key(pk2.data(), buf.data(), buf.size()); })},
        {"read_private_key", libcall(t, [&] { return picnic_read_private_key(sk2.data(), buf.data(), buf.size()); })},
    };
    for (auto& cl : calls)
      if (cl.rc == 0)
        CHECK_FAIL(pp ? "C17.disabled_parameter_not_refused" : "C11.operation_accepts_invalid_parameter", what + ": " + cl.n + " returned success");
    bytes wb(128, 0);
    int w1 = libcall(t, [&] { return picnic_write_public_key(pk.data(), wb.data(), wb.size()); });
    int w2 = libcall(t, [&] { return picnic_write_private_key(sk.data(), wb.data(), wb.size()); });
    if (w1 > 0 || w2 > 0)
      CHECK_FAIL(pp ? "C17.disabled_parameter_not_refused" : "C11.operation_accepts_invalid_parameter", what + ": key export returned " + std::to_string(w1) + "/" + std::to_string(w2));
    return;
  }
  const model::Params& p = *pp;
  if (ss == 0 || sks == 0 || pks == 0)
    FAIL_STOP("C11.enabled_parameter_refused", what + " (" + p.name + "): a size query returned 0");
  if (sks != (size_t)1 + 3 * p.ios || pks != (size_t)1 + 2 * p.ios)
    CHECK_FAIL("C11.key_size_query", std::string(p.name) + ": key sizes " + std::to_string(sks) + "/" + std::to_string(pks) + " differ from 1+3b / 1+2b");
  if (sks != tc_sk_size_macro[pb] || pks != tc_pk_size_macro[pb] || tc_block_size_macro[pb] != (unsigned long)p.ios)
    CHECK_FAIL("C11.key_size_constant", std::string(p.name) + ": documented key size constants disagree with the size queries");
  if (ss != tc_sig_size_macro[pb])
    CHECK_FAIL(owned("C13.size_query_differs_from_constant", {"C11"}), std::string(p.name) + ": picnic_signature_size = " + std::to_string(ss) + " but the documented constant is " + std::to_string(tc_sig_size_macro[pb]));
  if (!name || std::string(name) != p.name)
    CHECK_FAIL("C11.param_name", std::string(p.name) + ": name query returned " + (name ? name : "(null)"));
  if (surface_available(1, pb)) {
    const ParamApi& a = param_api(pb);
    if (a.signature_size() != ss || a.get_private_key_size() != sks || a.get_public_key_size() != pks)
      CHECK_FAIL(owned("C16.per_parameter_size_queries", {"C11", "C13"}), std::string(p.name) + ": per-parameter size queries disagree with the generic ones");
  }
  if (surface_available(2, pb)) {
    const NistApi& na = nist_api(pb);
    if (na.consts[0] != sks || na.consts[1] != pks || na.consts[2] != 4 + ss)
      CHECK_FAIL(owned("C16.nist_constants", {"C13"}), std::string(p.name) + ": CRYPTO_SECRETKEYBYTES/PUBLICKEYBYTES/BYTES disagree with the generic sizes");
  }
  if (c.s("chk").find("c13") != std::string::npos) {
    size_t tm = model::true_max_sig_size(p);
    if (ss < tm)
      CHECK_FAIL("C13.advertised_below_true_maximum", std::string(p.name) + ": advertised " + std::to_string(ss) + " < true maximum " + std::to_string(tm));
    if (t.stats)
      t.stats->hit("c13.size_table_rows");
  }
}

// ------------------------------------------------------------------------------------------------ NIST-style surface (C16)
void op_nist(const Case& c, TaskCtx& t, Outcome& o) {
  int param = (int)c.i("param", 1);
  const model::Params* pp = model::params(param);
  if (!pp || !generic_enabled(param) || !surface_available(2, param)) {
    o.skipped = true;
    return;
  }
  const model::Params& p = *pp;
  const NistApi& na = nist_api(param);
  std::string sub = c.s("sub", "roundtrip");
  model::Key k = key_from_case(c, p);
  bytes msg = msg_from_case(c);
  bytes skser = model::ser_sk(k), pkser = model::ser_pk(k);
  if (t.stats)
    t.stats->hit("op.nist." + sub);
  if (sub == "keypair") {
    // the same entropy stream through all three surfaces must give the same key
    const size_t SL = 256;
    bytes stream = entropy_stream(c, SL);
    bytes keys[3];
    int rcs[3];
    for (int s = 0; s < 3; s++) {
      if (!surface_available(s, param)) {
        rcs[s] = -99;
        continue;
      }
      sim_env_reset(&t.env, t.task);
      t.env.caps_mask = caps_for_node(G.node_override.empty() ? c.s("node", "avx2") : G.node_override);
      t.env.rng_buf = stream.data();
      t.env.rng_len = SL;
      bytes pk(tc_sizeof_publickey + 8, 0), sk(tc_sizeof_privatekey + 8, 0);
      if (s == 0) {
        rcs[s] = libcall(t, [&] { return picnic_keygen(param, pk.data(), sk.data()); });
        keys[s].assign(sk.begin(), sk.begin() + skser.size());
        keys[s].insert(keys[s].end(), pk.begin(), pk.begin() + pkser.size());
      } else if (s == 1) {
        rcs[s] = libcall(t, [&] { return param_api(param).keygen(pk.data(), sk.data()); });
        keys[s].push_back((uint8_t)param);
        keys[s].insert(keys[s].end(), sk.begin(), sk.begin() + skser.size() - 1);
        keys[s].push_back((uint8_t)param);
        keys[s].insert(keys[s].end(), pk.begin(), pk.begin() + pkser.size() - 1);
      } else {
        EdgeBuf pkb(na.consts[1]), skb(na.consts[0]);
        rcs[s] = libcall(t, [&] { return na.keypair(pkb.p, skb.p); });
        keys[s].assign(skb.p, skb.p + skb.n);
        keys[s].insert(keys[s].end(), pkb.p, pkb.p + pkb.n);
      }
    }
    o.digest = digest_of(rcs[2], 0, keys[2].data(), keys[2].size());
    o.summary = "rc=" + std::to_string(rcs[0]) + "/" + std::to_string(rcs[1]) + "/" + std::to_string(rcs[2]);
    if (G.solo_pass)
      return; // the solo execution only supplies the result; oracle clauses are evaluated in the history run
    for (int s = 0; s < 3; s++)
      if (rcs[s] != -99 && rcs[s] != 0)
        FAIL_STOP("C16.keypair_failed", std::string(p.name) + ": key generation failed on surface " + std::to_string(s));
    for (int s = 1; s < 3; s++)
      if (rcs[s] != -99 && keys[s] != keys[0])
        CHECK_FAIL("C16.keys_differ_between_surfaces", std::string(p.name) + ": the same entropy gives different keys through surface " + std::to_string(s) +
                                                                    " and the generic interface (beyond the leading parameter byte)");
    return;
  }
  // honest generic signature as reference
  bytes gsig;
  if (!honest_signature(k, msg, gsig))
    FAIL_STOP("C01.sign_failed", std::string(p.name) + ": generic signing failed");
  size_t mx = picnic_signature_size(param);
  if (sub == "sign") {
    std::string ov = c.s("overlap", "disjoint");
    size_t smcap = msg.size() + na.consts[2];
    EdgeBuf sm(smcap, nullptr, 0xC7);
    EdgeBuf skb(skser.size(), skser.data());
    skb.readonly(true);
    EdgeBuf mb;
    const uint8_t* mp;
    if (ov == "same") {
      memcpy(sm.p, msg.data(), msg.size());
      mp = sm.p;
    } else if (ov == "plus4") {
      memcpy(sm.p + 4, msg.data(), msg.size());
      mp = sm.p + 4;
    } else {
      mb.alloc(msg.size(), msg.data());
      mb.readonly(true);
      mp = mb.p;
    }
    unsigned long long smlen = 0xdeadbeefcafef00dULL; // a store narrower than the variable leaves garbage behind
    int rc = libcall(t, [&] { return na.sign(sm.p, &smlen, mp, msg.size(), skb.p); });
    skb.readonly(false);
    o.digest = digest_of(rc, smlen, rc == 0 ? sm.p : nullptr, rc == 0 ? (size_t)std::min<unsigned long long>(smlen, smcap) : 0);
    o.summary = "rc=" + std::to_string(rc) + " smlen=" + std::to_string(smlen) + " overlap=" + ov;
    if (G.solo_pass)
      return; // the solo execution only supplies the result; oracle clauses are evaluated in the history run
    if (t.stats)
      t.stats->tuple(std::string(p.name) + "|nist_sign|" + ov + "|" + (rc == 0 ? "ok" : "err"));
    if (rc != 0)
      FAIL_STOP("C16.nist_sign_failed", std::string(p.name) + ": crypto_sign returned " + std::to_string(rc));
    if (smlen != 4 + msg.size() + gsig.size())
      CHECK_FAIL("C16.signed_message_length", std::string(p.name) + ": smlen " + std::to_string(smlen) + " != 4 + mlen + siglen = " + std::to_string(4 + msg.size() + gsig.size()));
    uint32_t pre = sm.p[0] | (sm.p[1] << 8) | (sm.p[2] << 16) | ((uint32_t)sm.p[3] << 24);
    if (pre != gsig.size())
      CHECK_FAIL("C16.length_prefix", std::string(p.name) + ": length prefix " + std::to_string(pre) + " is not the little-endian signature length " + std::to_string(gsig.size()));
    if (memcmp(sm.p + 4, msg.data(), msg.size()) != 0)
      CHECK_FAIL("C16.message_not_embedded", std::string(p.name) + ": signed message does not contain the message after the prefix (overlap=" + ov + ")");
    if (memcmp(sm.p + 4 + msg.size(), gsig.data(), gsig.size()) != 0)
      CHECK_FAIL("C16.signature_differs_from_generic", std::string(p.name) + ": embedded signature differs from picnic_sign");
    if (gsig.size() > mx)
      CHECK_FAIL("C16.len_exceeds_max", "signature longer than the advertised maximum");
    for (size_t i = (size_t)smlen; i < smcap; i++)
      if (sm.p[i] != 0xC7)
        CHECK_FAIL("C16.wrote_beyond_smlen", std::string(p.name) + ": byte " + std::to_string(i) + " beyond smlen modified");
    // per-parameter surface signs identically
    if (surface_available(1, param)) {
      bytes ps(mx);
      size_t pl = mx;
      int r1 = cleancall([&] { return s_sign(1, k, msg.data(), msg.size(), ps.data(), &pl); });
      if (r1 != 0 || pl != gsig.size() || memcmp(ps.data(), gsig.data(), pl) != 0)
        CHECK_FAIL("C16.per_parameter_signature_differs", std::string(p.name) + ": <param>_sign output differs from picnic_sign");
    }
    return;
  }
  if (sub == "open") {
    // frame = LE32(len) || msg || sig, then a framing fault
    bytes frame;
    uint32_t L = (uint32_t)gsig.size();
    for (int i = 0; i < 4; i++)
      frame.push_back((uint8_t)(L >> (8 * i)));
    frame.insert(frame.end(), msg.begin(), msg.end());
    frame.insert(frame.end(), gsig.begin(), gsig.end());
    bytes sent = frame;
    std::string ff = c.s("ff", "none");
    Rng r(mix64(c.u("wseed", 1) ^ 0x6672616dULL));
    std::string desc;
    bytes pkd = pkser;
    if (ff == "none") {
    } else if (ff == "trunc") {
      size_t n = (size_t)(c.u("n") % frame.size());
      frame.resize(n);
      desc = "frame truncated to " + std::to_string(n) + " bytes";
    } else if (ff == "prefix") {
      static const long deltas[] = {0, 1, -1, 2, -2, 3, -3, 4, -4, 255, 256};
      std::string pv = c.s("pv", "d0");
      uint32_t v;
      if (pv == "zero")
        v = 0;
      else if (pv == "one")
        v = 1;
      else if (pv == "max")
        v = 0xffffffffu;
      else if (pv == "smlen")
        v = (uint32_t)frame.size();
      else if (pv == "smlen-3")
        v = (uint32_t)frame.size() - 3;
      else if (pv == "smlen-4")
        v = (uint32_t)frame.size() - 4;
      else if (pv == "wrap")
        v = 0xfffffffcu + (uint32_t)(c.u("n") % 4);
      else
        v = (uint32_t)((long)L + deltas[c.u("n") % 11]);
      for (int i = 0; i < 4; i++)
        frame[i] = (uint8_t)(v >> (8 * i));
      desc = "length prefix set to " + std::to_string(v);
    } else if (ff == "flip") {
      size_t bit = (size_t)(c.u("bit") % (8 * frame.size()));
      frame[bit >> 3] ^= (uint8_t)(0x80 >> (bit & 7));
      desc = "frame bit " + std::to_string(bit) + " flipped";
    } else if (ff == "extend") {
      size_t n = 1 + (size_t)(c.u("n") % 32);
      for (size_t i = 0; i < n; i++)
        frame.push_back((uint8_t)(r.next() >> 56));
      desc = "frame extended by " + std::to_string(n) + " bytes";
    } else if (ff == "pk") {
      size_t bit = (size_t)(c.u("bit") % (8 * pkd.size()));
      pkd[bit >> 3] ^= (uint8_t)(0x80 >> (bit & 7));
      desc = "public key bit " + std::to_string(bit) + " flipped";
    } else if (ff == "foreign") {
      // a perfectly valid signed message and public key of ANOTHER parameter set handed to this set's opener: each
      // NIST-style instance accepts exactly its own parameter set
      static const int PEER[13] = {0, 2, 1, 4, 3, 6, 5, 10, 11, 12, 7, 8, 9};
      int q = (c.u("n") & 1) ? PEER[param] : (int)(1 + (c.u("n") >> 1) % 12);
      const model::Params* qp = model::params(q);
      if (q == param || !qp || !generic_enabled(q)) {
        o.skipped = true;
        return;
      }
      model::Key kq = (qp->n == p.n && qp->r == p.r) ? k : key_from_case(c, *qp); // same LowMC instance: the very same key material
      kq.param = q;
      bytes qsig;
      if (!honest_signature(kq, msg, qsig)) {
        o.skipped = true;
        return;
      }
      frame.clear();
      uint32_t Lq = (uint32_t)qsig.size();
      for (int i = 0; i < 4; i++)
        frame.push_back((uint8_t)(Lq >> (8 * i)));
      frame.insert(frame.end(), msg.begin(), msg.end());
      frame.insert(frame.end(), qsig.begin(), qsig.end());
      pkd = model::ser_pk(kq);
      desc = std::string("a valid signed message and public key of ") + qp->name + " presented to the opener of " + p.name;
    } else if (ff == "zerowin") {
      // LE32(L) || zeros with smlen = L + w: for w < 4 the frame cannot hold header + signature; the all-zero body is a
      // well-formed (all-zero challenge) signature at every offset, so a wrong offset computation goes deep
      if (p.kkw) {
        o.skipped = true;
        return;
      }
      std::vector<uint8_t> e0(p.T, 0);
      uint32_t Lz = (uint32_t)model::zkb_sig_size(p, e0);
      size_t w = (size_t)(c.u("n") % 9);
      frame.assign(Lz + w, 0);
      for (int i = 0; i < 4; i++)
        frame[i] = (uint8_t)(Lz >> (8 * i));
      desc = "LE32(" + std::to_string(Lz) + ") || zeros, frame length L+" + std::to_string(w);
    } else if (ff == "reroll") {
      auto lay = model::sig_layout(p, gsig);
      for (auto& f : lay) {
        if (f.name == "challenge" || f.len == 0)
          continue;
        size_t base = 4 + msg.size();
        for (size_t i = 0; i < f.len; i++)
          frame[base + f.off + i] = (uint8_t)(r.next() >> 56);
        if (f.padbits)
          frame[base + f.off + f.len - 1] &= (uint8_t)(0xff << f.padbits);
      }
      desc = "embedded signature re-rolled (well-formed)";
    } else if (ff == "arbitrary") {
      size_t n = (size_t)(c.u("n") % (frame.size() + 64));
      frame = r.take(n);
      desc = "arbitrary frame of " + std::to_string(n) + " bytes";
    }
    if (t.stats)
      t.stats->hit("fault.frame_" + ff);
    // "extend": the longer frame is a valid frame of a longer message only if the prefix still matches, which it
    // does (the prefix is the signature length): message' = msg || first extra bytes... no: the signature is taken
    // from the END of the frame, so an extended frame carries a different signature and message.
    bool intact = frame == sent && pkd == pkser;
    std::string ov = c.s("overlap", "disjoint");
    size_t smlen = frame.size();
    // sm lives in a buffer whose end is the guard page; in-place variants reuse it for the output
    EdgeBuf smb(smlen, frame.data());
    EdgeBuf pkb(pkd.size(), pkd.data());
    pkb.readonly(true);
    EdgeBuf mout;
    uint8_t* mp;
    if (ov == "same")
      mp = smb.p;
    else if (ov == "plus4" && smlen >= 4)
      mp = smb.p + 4;
    else if (ov == "inside" && smlen >= 8)
      mp = smb.p + 4 + (c.u("n") % 4);
    else {
      ov = "disjoint";
      mout.alloc(smlen, nullptr, 0xC7);
      mp = mout.p;
      smb.readonly(true);
    }
    unsigned long long mlen = 0xdeadbeefcafef00dULL;
    t.env.perm_budget = 0;
    int rc = libcall(t, [&] { return na.open(mp, &mlen, smb.p, smlen, pkb.p); });
    if (ov == "disjoint")
      smb.readonly(false);
    pkb.readonly(false);
    o.digest = digest_of(rc, rc == 0 ? mlen : 0, rc == 0 ? mp : nullptr, rc == 0 ? (size_t)std::min<unsigned long long>(mlen, smlen) : 0);
    o.summary = "rc=" + std::to_string(rc) + " " + (intact ? "intact" : desc) + " overlap=" + ov;
    if (G.solo_pass)
      return; // the solo execution only supplies the result; oracle clauses are evaluated in the history run
    if (t.stats)
      t.stats->tuple(std::string(p.name) + "|nist_open|" + ff + "|" + ov + "|" + (rc == 0 ? "opened" : "refused"));
    if (ov == "disjoint" && memcmp(smb.p, frame.data(), smlen) != 0)
      CHECK_FAIL("C05.const_input_modified", std::string(p.name) + ": crypto_sign_open modified its const signed message");
    if (intact) {
      if (rc != 0)
        FAIL_STOP("C16.open_rejected_valid", std::string(p.name) + ": crypto_sign_open rejected an intact signed message (overlap=" + ov + ", mlen=" + std::to_string(msg.size()) + ")");
      if (mlen != msg.size() || memcmp(mp, msg.data(), msg.size()) != 0)
        CHECK_FAIL("C16.opened_message_wrong", std::string(p.name) + ": opened message/length wrong (overlap=" + ov + ", mlen " + std::to_string(mlen) + " vs " + std::to_string(msg.size()) + ")");
    } else if (rc == 0)
      CHECK_FAIL("C16.open_accepted_invalid", std::string(p.name) + ": crypto_sign_open accepted although " + desc);
    return;
  }
  o.machinery = true;
  o.fail("MACHINERY.unknown_nist_sub", sub);
}
} // namespace

void register_key_ops(std::map<std::string, OpFn>& reg) {
  reg["keygen"] = op_keygen;
  reg["lowmc"] = op_lowmc;
  reg["lowmcbulk"] = op_lowmcbulk;
  reg["import"] = op_import;
  reg["export"] = op_export;
  reg["sizes"] = op_sizes;
  reg["nist"] = op_nist;
}
} // namespace sim
