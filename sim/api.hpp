// The three API surfaces of the library as three kinds of client (generic picnic_*, per-parameter
// <param>_*, NIST-style crypto_sign*). Per-parameter and NIST entry points are weak so that reduced
// configurations (C17) link; a missing entry point means "not enabled in this build".
#pragma once
#include <cstddef>
#include <cstdint>

extern "C" {
// ---- generic surface (picnic.h); key structures are passed as opaque byte blocks of their full sizeof
const char* picnic_get_param_name(int);
size_t picnic_get_private_key_size(int);
size_t picnic_get_public_key_size(int);
int picnic_keygen(int, void* pk, void* sk);
int picnic_sign(const void* sk, const uint8_t* m, size_t ml, uint8_t* sig, size_t* siglen);
size_t picnic_signature_size(int);
int picnic_verify(const void* pk, const uint8_t* m, size_t ml, const uint8_t* sig, size_t siglen);
int picnic_write_public_key(const void* key, uint8_t* buf, size_t buflen);
int picnic_read_public_key(void* key, const uint8_t* buf, size_t buflen);
int picnic_write_private_key(const void* key, uint8_t* buf, size_t buflen);
int picnic_read_private_key(void* key, const uint8_t* buf, size_t buflen);
int picnic_validate_keypair(const void* sk, const void* pk);
void picnic_clear_private_key(void* key);
int picnic_sk_to_pk(const void* sk, void* pk);
int picnic_get_private_key_param(const void* sk);
int picnic_get_public_key_param(const void* pk);

// ---- tree constants (treeconsts.c, compiled against the snapshot's headers)
extern const unsigned long tc_sig_size_macro[13], tc_sk_size_macro[13], tc_pk_size_macro[13], tc_block_size_macro[13];
extern const unsigned long tc_sizeof_publickey, tc_sizeof_privatekey, tc_max_sig_macro, tc_max_sk_macro, tc_max_pk_macro,
    tc_param_max_index;
extern const unsigned long tc_param_struct_sizes[13][2];

// ---- S10 hooks (PICNIC_VERIF); absent => forced-challenge scenarios are skipped and say so
extern void (*picnic_verif_challenge_zkbpp)(unsigned int num_rounds, uint8_t* ch) __attribute__((weak));
extern void (*picnic_verif_challenge_kkw)(unsigned int num_rounds, unsigned int num_opened, unsigned int num_parties,
                                          uint16_t* challengeC, uint16_t* challengeP) __attribute__((weak));
}

namespace sim {
struct ParamApi {
  const char* (*get_param_name)(void);
  size_t (*get_private_key_size)(void);
  size_t (*get_public_key_size)(void);
  int (*keygen)(void* pk, void* sk);
  int (*sign)(const void* sk, const uint8_t* m, size_t ml, uint8_t* sig, size_t* siglen);
  size_t (*signature_size)(void);
  int (*verify)(const void* pk, const uint8_t* m, size_t ml, const uint8_t* sig, size_t siglen);
  int (*write_public_key)(const void* key, uint8_t* buf, size_t buflen);
  int (*read_public_key)(void* key, const uint8_t* buf, size_t buflen);
  int (*write_private_key)(const void* key, uint8_t* buf, size_t buflen);
  int (*read_private_key)(void* key, const uint8_t* buf, size_t buflen);
  int (*validate_keypair)(const void* sk, const void* pk);
  void (*clear_private_key)(void* key);
  int (*sk_to_pk)(const void* sk, void* pk);
  bool present() const { return keygen != nullptr; }
};
struct NistApi {
  int (*keypair)(unsigned char* pk, unsigned char* sk);
  int (*sign)(unsigned char* sm, unsigned long long* smlen, const unsigned char* m, unsigned long long mlen,
              const unsigned char* sk);
  int (*open)(unsigned char* m, unsigned long long* mlen, const unsigned char* sm, unsigned long long smlen,
              const unsigned char* pk);
  const unsigned long* consts; // {CRYPTO_SECRETKEYBYTES, CRYPTO_PUBLICKEYBYTES, CRYPTO_BYTES}
  bool present() const { return keypair != nullptr && consts != nullptr; }
};
const ParamApi& param_api(int id); // id 1..12
const NistApi& nist_api(int id);
bool generic_enabled(int id); // picnic_signature_size(id) != 0 (fault-free query)
} // namespace sim
