// Operations around signing and verification: sign (C01, C03, C06, C09, C13), wire delivery to a verifier
// with faults (C02, C05), corrupted stored key handed to the signer (C12).
#include "world.hpp"
#include <algorithm>
#include <cstring>
#include <memory>

namespace sim {
namespace {
bool has_chk(const Case& c, const char* k) {
  std::string s = "," + c.s("chk") + ",";
  return s.find(std::string(",") + k + ",") != std::string::npos;
}
std::string family_tag(const Case& c) {
  if (!G.cpu_seam)
    return G.variant;
  return G.variant + "@" + (G.node_override.empty() ? c.s("node", "avx2") : G.node_override);
}

struct HonestInfo {
  bytes sig;
  uint64_t perms = 0;
};
// honest signature + its hash work (calibrates the step budget); cached
bool honest_info(const model::Key& k, const bytes& msg, HonestInfo& hi) {
  static std::mutex mu;
  static std::map<std::string, uint64_t> perms_cache;
  Fnv f;
  f.buf(msg.data(), msg.size());
  std::string ck = std::to_string(k.param) + model::hex(k.sk) + model::hex(k.pt) + hex64(f.h) + std::to_string(msg.size());
  {
    std::lock_guard<std::mutex> lk(mu);
    auto it = perms_cache.find(ck);
    if (it != perms_cache.end() && honest_signature(k, msg, hi.sig)) {
      hi.perms = it->second;
      return true;
    }
  }
  // measure hash work of an honest sign in a clean environment
  size_t mx = picnic_signature_size(k.param);
  bytes out(mx ? mx : 1);
  size_t len = mx;
  SimEnv* saved = sim_env_get();
  SimEnv e;
  sim_env_reset(&e, -1);
  if (!G.node_override.empty())
    e.caps_mask = caps_for_node(G.node_override);
  default_entropy(&e);
  sim_env_set(&e);
  int rc = s_sign(0, k, msg.data(), msg.size(), out.data(), &len);
  sim_env_set(saved);
  if (rc != 0 || len > mx)
    return false;
  {
    std::lock_guard<std::mutex> lk(mu);
    if (perms_cache.size() > 4096)
      perms_cache.clear();
    perms_cache[ck] = e.perms;
  }
  hi.perms = e.perms;
  return honest_signature(k, msg, hi.sig);
}

size_t resolve_cap(const std::string& spec, size_t mx, size_t needed, const model::Params& p) {
  auto off = [&](size_t base, const std::string& rest) -> size_t {
    if (rest.empty())
      return base;
    long d = std::stol(rest);
    if (d < 0 && (size_t)(-d) > base)
      return 0;
    return (size_t)((long)base + d);
  };
  size_t hdr = p.kkw ? (size_t)p.dig + 32 : (size_t)(2 * p.T + 7) / 8 + 32;
  if (spec.rfind("max", 0) == 0)
    return off(mx, spec.substr(3));
  if (spec.rfind("needed", 0) == 0)
    return off(needed, spec.substr(6));
  if (spec.rfind("hdr", 0) == 0)
    return off(hdr, spec.substr(3));
  if (spec.rfind("frac", 0) == 0) // per-mille of needed
    return needed * (size_t)std::stol(spec.substr(4)) / 1000;
  return (size_t)std::stoull(spec);
}

// ------------------------------------------------------------------------------------------------ sign
void op_sign(const Case& c, TaskCtx& t, Outcome& o) {
  int param = (int)c.i("param", 1), surf = (int)c.i("surf", 0);
  const model::Params* pp = model::params(param);
  if (!pp || !generic_enabled(param) || !surface_available(surf, param)) {
    o.skipped = true;
    return;
  }
  const model::Params& p = *pp;
  bool forced = c.has("och");
  if (forced && !G.hooks) {
    o.skipped = true;
    if (t.stats)
      t.stats->hit("skipped.no_hook");
    return;
  }
  model::Key k = key_from_case(c, p);
  if (c.s("kmode") == "lib") { // key pair as the library itself derives it (C01: "valid key pair")
    bytes skst = generic_sk_struct(k), pkst(tc_sizeof_publickey, 0);
    int rc = cleancall([&] { return picnic_sk_to_pk(skst.data(), pkst.data()); });
    if (rc != 0) {
      o.fail("C01.sk_to_pk_failed", "picnic_sk_to_pk refused a well-formed key, param " + std::string(p.name));
      return;
    }
    k.C.assign(pkst.begin() + 1, pkst.begin() + 1 + p.ios);
  }
  bytes msg = msg_from_case(c);
  model::Challenge ch;
  if (forced)
    ch = challenge_from_case(c, p);
  ForcedChallenge fc(forced ? &ch : nullptr);

  size_t mx = cleancall([&] { return s_signature_size(surf, param); });
  if (mx == 0) {
    o.fail("C13.size_query_zero", std::string("signature size query returned 0 for enabled ") + p.name);
    return;
  }
  // length an honest call produces (the library's own, at full capacity)
  size_t needed = 0;
  std::string capspec = c.s("cap", "max");
  bool need_needed = capspec.rfind("needed", 0) == 0 || capspec.rfind("frac", 0) == 0 || has_chk(c, "c06");
  bytes honest;
  if (need_needed) {
    if (forced) {
      honest.resize(mx);
      size_t l = mx;
      int rc = cleancall([&] { return s_sign(0, k, msg.data(), msg.size(), honest.data(), &l); });
      if (rc != 0) {
        o.fail("C13.forced_sign_failed", "signing under a forced challenge failed at full capacity");
        return;
      }
      honest.resize(l);
    } else if (!honest_signature(k, msg, honest)) {
      o.fail("C01.sign_failed", std::string("honest signing failed at full capacity, ") + p.name + " mlen=" + std::to_string(msg.size()));
      return;
    }
    needed = honest.size();
  }
  // the caller declares a capacity far beyond the buffer of the advertised size it really passes: SIZE_MAX, or decl<N>
  // (2^31, 2^32, 2^32+k, 2^40, 2^63 ...: values whose low 16/31/32 bits are small)
  bool sizemax = capspec == "sizemax" || capspec.rfind("decl", 0) == 0;
  size_t declared = capspec == "sizemax" ? (size_t)-1 : sizemax ? (size_t)std::stoull(capspec.substr(4)) : 0;
  if (sizemax && declared < mx)
    declared = mx;
  size_t cap = sizemax ? mx : resolve_cap(capspec, mx, needed, p);
  bool edge = c.s("place") == "edge" || cap < mx;
  uint8_t fill = (uint8_t)c.i("outfill", 0xC7);
  EdgeBuf eb;
  std::unique_ptr<CanaryBuf> cb;
  uint8_t* out;
  if (edge) {
    eb.alloc(cap, nullptr, fill);
    out = eb.p;
  } else {
    cb.reset(new CanaryBuf(cap, fill));
    out = cb->p();
  }
  EdgeBuf mbuf;
  static const uint8_t nonnull_empty = 0;
  const uint8_t* mptr = msg.empty() ? &nonnull_empty : msg.data();
  if (c.s("place") == "edge") {
    mbuf.alloc(msg.size(), msg.data());
    mbuf.readonly(true);
    mptr = mbuf.p;
  }
  // the message at an odd alignment, or (empty message) as a NULL pointer with length 0
  bytes shifted;
  if (c.has("malign") && !msg.empty() && !mbuf.base) {
    size_t sh = 1 + (size_t)(c.u("malign") % 15);
    shifted.assign(sh + msg.size() + 16, 0xEE);
    memcpy(shifted.data() + sh, msg.data(), msg.size());
    mptr = shifted.data() + sh;
  }
  if (c.i("mnull", 0) && msg.empty())
    mptr = nullptr;
  size_t len = sizemax ? declared : cap;
  int rc = libcall(t, [&] {
    if (mptr)
      return s_sign(surf, k, mptr, msg.size(), out, &len);
    // s_sign substitutes a valid pointer for NULL; call the surface directly to really pass NULL
    if (surf == 1) {
      bytes st = param_sk_struct(k);
      return param_api(k.param).sign(st.data(), nullptr, 0, out, &len);
    }
    bytes st = generic_sk_struct(k);
    return picnic_sign(st.data(), nullptr, 0, out, &len);
  });
  if (mbuf.base)
    mbuf.readonly(false);
  bytes sig;
  if (rc == 0 && len <= cap)
    sig.assign(out, out + len);
  o.digest = digest_of(rc, rc == 0 ? len : 0, sig.data(), sig.size());
  o.summary = "rc=" + std::to_string(rc) + " len=" + (rc == 0 ? std::to_string(len) : "-") + " cap=" + std::to_string(cap);
  if (G.solo_pass)
    return; // the solo execution only supplies the result; oracle clauses are evaluated in the history run
  if (t.stats) {
    t.stats->hit("op.sign");
    if (sizemax)
      t.stats->hit("fault.declared_capacity_beyond_buffer");
    t.stats->tuple(std::string(p.name) + "|" + family_tag(c) + "|sign|surf" + std::to_string(surf) + "|" +
                   (forced ? "och:" + c.s("och") : capspec) + "|" + (rc == 0 ? "ok" : "err"));
  }

  // ---- C06 capacity semantics
  if (has_chk(c, "c06")) {
    if (t.stats)
      t.stats->hit(cap < needed ? "c06.cap_below_needed" : cap < mx ? "c06.cap_between" : "c06.cap_full");
    if (cb && !cb->canaries_intact())
      CHECK_FAIL(owned("C06.wrote_outside_buffer", {"C17"}), "canary around the output buffer changed, cap=" + std::to_string(cap));
    if (cap < needed && rc == 0)
      CHECK_FAIL(owned("C06.success_with_short_buffer", {"C17"}), std::string(p.name) + ": sign returned 0 with capacity " + std::to_string(cap) +
                                                               " < needed " + std::to_string(needed) + " (reported len " + std::to_string(len) + ")");
    if (cap >= mx && rc != 0)
      CHECK_FAIL("C06.failed_with_full_buffer", std::string(p.name) + ": sign failed with capacity " + std::to_string(cap) + " >= max");
    if (rc == 0) {
      if (len > cap || len > mx)
        CHECK_FAIL("C06.len_exceeds_capacity", "reported length " + std::to_string(len) + " > capacity " + std::to_string(cap));
      if (len != needed)
        CHECK_FAIL("C06.len_not_bytes_written", "reported length " + std::to_string(len) + " differs from the signature length " + std::to_string(needed));
      if (!honest.empty() && memcmp(out, honest.data(), len) != 0)
        CHECK_FAIL("C06.bytes_differ", "signature bytes differ from the full-capacity signature");
      // bytes beyond the reported length untouched
      size_t touched = cap;
      if (cb)
        touched = cb->first_touched_from(len);
      else
        for (size_t i = len; i < cap; i++)
          if (out[i] != fill) {
            touched = i;
            break;
          }
      if (touched != cap)
        CHECK_FAIL("C06.wrote_beyond_len", "byte " + std::to_string(touched) + " beyond the reported length " + std::to_string(len) + " was modified");
    }
  }
  // ---- sign must succeed for a consistent key (volume check without model or verifier: a wrong aux bit or recorded state
  // makes the signer's own consistency check fail)
  if (has_chk(c, "signok") && rc != 0)
    CHECK_FAIL(owned("C01.sign_failed", {"C10", "C12", "C16"}), std::string(p.name) + " " + family_tag(c) + " surf" + std::to_string(surf) + " mlen=" + std::to_string(msg.size()) +
                                                                   " key=" + c.s("kpat") + ": sign returned " + std::to_string(rc) + " for a consistent key");
  // ---- C01 completeness
  if (has_chk(c, "c01")) {
    if (rc != 0)
      CHECK_FAIL(owned("C01.sign_failed", {"C12", "C16"}), std::string(p.name) + " " + family_tag(c) + " surf" + std::to_string(surf) + " mlen=" +
                                                 std::to_string(msg.size()) + " key=" + c.s("kpat") + ": sign returned " + std::to_string(rc));
    if (len > mx)
      CHECK_FAIL("C01.len_exceeds_max", "len " + std::to_string(len) + " > max " + std::to_string(mx));
    std::vector<std::string> nodes = G.cpu_seam && G.node_override.empty() ? std::vector<std::string>{"avx2", "sse2"}
                                                                           : std::vector<std::string>{G.node_override.empty() ? "avx2" : G.node_override};
    for (auto& nd : nodes)
      for (int vs = 0; vs < 2; vs++) {
        if (!surface_available(vs, param))
          continue;
        int v = cleancall_node(nd, [&] { return s_verify(vs, k, msg.data(), msg.size(), sig.data(), sig.size()); });
        if (t.stats)
          t.stats->hit("c01.verify");
        if (v != 0)
          CHECK_FAIL(owned("C01.honest_signature_rejected", {"C12", "C16"}), std::string(p.name) + " signed on " + family_tag(c) + " surf" + std::to_string(surf) +
                                                                   ", rejected on node " + nd + " surf" + std::to_string(vs) + " mlen=" + std::to_string(msg.size()));
      }
  }
  // ---- C03 spec equality
  if (has_chk(c, "c03") && rc == 0) {
    bytes ms;
    if (forced)
      {
      bytes xr = extra_randomness_bytes(p);
      ms = model::sign(p, k.sk, k.C, k.pt, msg, nullptr, &ch, &xr);
    }
    else
      ms = model_signature(k, msg);
    if (t.stats)
      t.stats->hit("c03.model_compare");
    if (ms != sig) {
      size_t d = 0;
      while (d < ms.size() && d < sig.size() && ms[d] == sig[d])
        d++;
      // in a WITH_EXTRA_RANDOMNESS build signatures cannot be compared with the full build (randomised by design): there the
      // model, fed the same random bytes, is what "behaves as the full build" means, and C17 owns the clause
      CHECK_FAIL(G.extra_randomness ? owned("C03.differs_from_specification", {"C10", "C17"}) : owned("C03.differs_from_specification", {"C10"}), std::string(p.name) + " " + family_tag(c) + " mlen=" + std::to_string(msg.size()) + ": len " +
                                                                std::to_string(sig.size()) + " vs model " + std::to_string(ms.size()) + ", first difference at byte " +
                                                                std::to_string(d));
    }
  } else if (has_chk(c, "c03") && rc != 0)
    CHECK_FAIL(owned("C03.sign_failed", {"C10"}), std::string(p.name) + ": sign returned " + std::to_string(rc));
  // ---- C09 only what the protocol permits
  if (has_chk(c, "c09") && rc == 0) {
    model::Trace tr;
    bytes xr9 = extra_randomness_bytes(p);
    bytes ms = forced ? model::sign(p, k.sk, k.C, k.pt, msg, &tr, &ch, &xr9) : model_signature(k, msg, &tr);
    bool lowent = c.s("kpat", "rand") != "rand";
    for (auto& s : tr.secrets) {
      if (s.what == "secret_key" && lowent)
        continue; // a low-weight key is not a 16-byte pseudorandom string; its absence cannot be tested by substring
      if (t.stats)
        t.stats->hit("c09.secret_scanned");
      if (s.data.size() >= 16 && memmem(sig.data(), sig.size(), s.data.data(), s.data.size()))
        CHECK_FAIL("C09.secret_in_signature", std::string(p.name) + ": " + s.what + " occurs in the signature");
      // ... nor anywhere else in what the call hands back: the caller's buffer beyond the reported length
      if (s.data.size() >= 16 && cap > len) {
        const void* hit = memmem(out + len, cap - len, s.data.data(), s.data.size());
        if (hit)
          CHECK_FAIL("C09.secret_left_in_output_buffer", std::string(p.name) + ": " + s.what + " was written to the caller's buffer at offset " +
                                                             std::to_string((const uint8_t*)hit - out) + ", beyond the reported length " + std::to_string(len));
      }
    }
    if (t.stats) {
      t.stats->hit("c09.signatures");
      if (!p.kkw) {
        for (int v = 0; v < 3; v++)
          if (std::count(tr.challenge.e.begin(), tr.challenge.e.end(), v))
            t.stats->hit("c09.zkb_challenge_value_" + std::to_string(v));
      } else
        for (auto P : tr.challenge.P)
          t.stats->hit("c09.kkw_hidden_party_" + std::to_string(P));
    }
    // the unopened parties' seeds are only hidden if the per-signature randomness is: a signer that keys the seed/salt
    // derivation with public values instead of the secret key produces signatures that verify, yet every hidden seed can
    // be recomputed by anyone. The salt is in the signature, so the hypothesis "derived from public data" is testable.
    {
      size_t salt_off = p.kkw ? (size_t)p.dig : (size_t)(2 * p.T + 7) / 8;
      if (sig.size() >= salt_off + 32) {
        bytes zeros(p.ios, 0), ones(p.ios, 0xff);
        const bytes* hyp[] = {&k.C, &k.pt, &zeros, &ones};
        const char* hname[] = {"the public ciphertext", "the public plaintext", "an all-zero string", "an all-one string"};
        for (int h = 0; h < 4; h++) {
          model::Shake sh(model::shake_bits(p));
          sh.absorb(*hyp[h]);
          sh.absorb(msg);
          sh.absorb(k.C);
          sh.absorb(k.pt);
          sh.absorb_le16((unsigned)p.n);
          bytes salt;
          if (p.kkw)
            salt = sh.squeeze(32);
          else {
            bytes all = sh.squeeze((size_t)p.T * 3 * p.seed + 32);
            salt.assign(all.end() - 32, all.end());
          }
          if (*hyp[h] != k.sk && memcmp(sig.data() + salt_off, salt.data(), 32) == 0)
            CHECK_FAIL("C09.per_signature_randomness_derived_from_public_data",
                       std::string(p.name) + " surf" + std::to_string(surf) + ": the salt equals the derivation keyed with " + hname[h] +
                           " instead of the secret key, so every unopened party's seed can be recomputed from public data");
        }
        if (t.stats)
          t.stats->hit("c09.public_derivation_hypotheses_tested", 4);
      }
    }
    // revealing is complete: the verifier reconstructs every opened party (accepts)
    int v = cleancall([&] { return s_verify(0, k, msg.data(), msg.size(), sig.data(), sig.size()); });
    if (v != 0)
      CHECK_FAIL("C09.opened_data_insufficient", std::string(p.name) + ": verifier cannot reconstruct the opened parties (rejects)");
    // opened-party data only: the signature is exactly the model's, whose construction writes nothing else
    if (ms != sig)
      CHECK_FAIL("C03.differs_from_specification", std::string(p.name) + ": signature bytes differ from the reference construction (noted by the C09 check, decided by C03)");
  }
  // ---- C13 advertised maximum
  if (has_chk(c, "c13")) {
    if (rc != 0)
      CHECK_FAIL(owned("C13.sign_failed_at_advertised_size", {"C17"}), std::string(p.name) + " och=" + c.s("och") + ": sign failed with a buffer of the advertised size " +
                                                                    std::to_string(cap) + (sizemax ? " (declared capacity " + std::to_string(declared) + ")" : ""));
    if (len > mx)
      CHECK_FAIL("C13.len_exceeds_advertised", "len " + std::to_string(len) + " > advertised " + std::to_string(mx));
    if (p.unruh && len != mx)
      CHECK_FAIL("C13.unruh_not_exact", std::string(p.name) + ": Unruh signature length " + std::to_string(len) + " != advertised " + std::to_string(mx));
    if (forced) {
      size_t ml = p.kkw ? model::kkw_sig_size(p, ch.C, ch.P) : model::zkb_sig_size(p, ch.e);
      if (t.stats)
        t.stats->hit("c13.forced_challenge");
      if (ml != len)
        CHECK_FAIL("C13.len_differs_from_size_model", std::string(p.name) + " och=" + c.s("och") + ": len " + std::to_string(len) + " vs size model " +
                                                                   std::to_string(ml));
      if (t.stats && len == model::true_max_sig_size(p))
        t.stats->hit("c13.reached_true_maximum");
      int v = cleancall([&] { return s_verify(0, k, msg.data(), msg.size(), sig.data(), sig.size()); });
      if (v != 0)
        CHECK_FAIL("C13.forced_signature_rejected", std::string(p.name) + " och=" + c.s("och") + ": signature under forced challenge does not verify");
    }
  }
}

// ------------------------------------------------------------------------------------------------ wire
struct Delivered {
  bytes sig, msg, pk; // what the verifier receives (pk = serialised public key of the verifying parameter set)
  int vparam;
  bool intact;
  std::string fault_desc;
};

std::vector<size_t> padding_bit_positions(const model::Params& p, const bytes& sig) {
  std::vector<size_t> pos;
  for (auto& f : model::sig_layout(p, sig))
    for (int b = 0; b < f.padbits; b++)
      pos.push_back(8 * (f.off + f.len) - 1 - b);
  return pos;
}

static const int SAMEKEY_PEER[13] = {0, 2, 1, 4, 3, 6, 5, 10, 11, 12, 7, 8, 9};

bool apply_wire_fault(const Case& c, const model::Params& p, const model::Key& k, const bytes& msg, const bytes& sig, Delivered& d, TaskCtx& t, Outcome& o) {
  d.sig = sig;
  d.msg = msg;
  d.pk = model::ser_pk(k);
  d.vparam = p.id;
  std::string wf = c.s("wf", "none");
  Rng r(mix64(c.u("wseed", 1) ^ 0x77697265ULL));
  size_t len = sig.size();
  auto stat = [&](const std::string& s) {
    if (t.stats)
      t.stats->hit("fault.wire_" + s);
  };
  if (wf == "none" || wf == "dup2") {
    stat(wf == "none" ? "intact" : "duplicate_delivery");
  } else if (wf == "flip") {
    size_t bit = (size_t)(c.u("bit") % (8 * len));
    d.sig[bit >> 3] ^= (uint8_t)(0x80 >> (bit & 7));
    d.fault_desc = "bit " + std::to_string(bit) + " of the signature flipped";
    stat("flip");
  } else if (wf == "flips") {
    int n = 2 + (int)(c.u("nflips", 2) % 6);
    for (int i = 0; i < n; i++) {
      size_t bit = (size_t)r.below(8 * len);
      d.sig[bit >> 3] ^= (uint8_t)(0x80 >> (bit & 7));
    }
    d.fault_desc = std::to_string(n) + " bits of the signature flipped";
    stat("multiflip");
  } else if (wf == "padbit") {
    auto pos = padding_bit_positions(p, sig);
    if (pos.empty()) {
      o.skipped = true;
      return false;
    }
    size_t bit = pos[c.u("which") % pos.size()];
    d.sig[bit >> 3] ^= (uint8_t)(0x80 >> (bit & 7));
    d.fault_desc = "padding bit at bit position " + std::to_string(bit) + " set";
    stat("padding_bit");
  } else if (wf == "chal") { // flip inside the challenge encoding
    size_t cbytes = p.kkw ? (size_t)p.dig : (size_t)(2 * p.T + 7) / 8;
    size_t bit = (size_t)(c.u("bit") % (8 * cbytes));
    d.sig[bit >> 3] ^= (uint8_t)(0x80 >> (bit & 7));
    d.fault_desc = "challenge bit " + std::to_string(bit) + " flipped";
    stat("challenge_bit");
  } else if (wf == "chal3") { // ZKB++: set one challenge pair to the non-canonical value 3
    if (p.kkw) {
      o.skipped = true;
      return false;
    }
    size_t tt = (size_t)(c.u("bit") % p.T);
    d.sig[(2 * tt) >> 3] |= (uint8_t)(0x80 >> ((2 * tt) & 7));
    d.sig[(2 * tt + 1) >> 3] |= (uint8_t)(0x80 >> ((2 * tt + 1) & 7));
    d.fault_desc = "challenge pair " + std::to_string(tt) + " set to 3";
    stat("challenge_pair_3");
  } else if (wf == "trunc") {
    size_t cut = 1 + (size_t)(c.u("n") % len);
    d.sig.resize(len - cut);
    d.fault_desc = "truncated by " + std::to_string(cut) + " bytes";
    stat("truncate");
  } else if (wf == "extend") {
    size_t n = (c.u("n") & 1) ? 1 + (size_t)((c.u("n") >> 1) % 4) : 1 + (size_t)((c.u("n") >> 1) % 96); // half of them 1..4 bytes
    std::string pat = c.s("pat", "zero");
    for (size_t i = 0; i < n; i++)
      d.sig.push_back(pat == "zero" ? 0 : pat == "head" ? sig[i % len] : (uint8_t)(r.next() >> 56));
    d.fault_desc = "extended by " + std::to_string(n) + " bytes (" + pat + ")";
    stat("extend");
  } else if (wf == "dupframe") {
    d.sig.insert(d.sig.end(), sig.begin(), sig.end());
    d.fault_desc = "signature||signature";
    stat("dupframe");
  } else if (wf == "splice" || wf == "swapmsg") {
    Case c2;
    c2.set("mlen", c.i("mlen2", 33)).setu("mseed", c.u("mseed2", 99));
    bytes msg2 = msg_from_case(c2);
    if (msg2 == msg)
      msg2.push_back(0x5a);
    if (wf == "swapmsg") {
      d.msg = msg2;
      d.fault_desc = "signature of message A delivered with message B";
      stat("swap_message");
    } else {
      bytes sig2;
      if (!honest_signature(k, msg2, sig2)) {
        o.skipped = true;
        return false;
      }
      size_t at = (size_t)(c.u("at") % std::min(len, sig2.size()));
      d.sig.assign(sig.begin(), sig.begin() + at);
      d.sig.insert(d.sig.end(), sig2.begin() + at, sig2.end());
      d.fault_desc = "prefix of signature A (" + std::to_string(at) + " bytes) + suffix of signature B";
      stat("splice");
    }
  } else if (wf == "torn") {
    size_t at = (size_t)(c.u("at") % len);
    std::string pat = c.s("pat", "zero");
    for (size_t i = at; i < len; i++)
      d.sig[i] = pat == "zero" ? 0 : pat == "ff" ? 0xff : (uint8_t)(r.next() >> 56);
    d.fault_desc = "torn write: " + std::to_string(at) + " new bytes over stale contents (" + pat + ")";
    stat("torn");
  } else if (wf == "flipmsg") {
    if (msg.empty()) {
      d.msg.push_back(0);
      d.fault_desc = "one byte appended to the empty message";
    } else {
      size_t bit = (size_t)(c.u("bit") % (8 * msg.size()));
      d.msg[bit >> 3] ^= (uint8_t)(0x80 >> (bit & 7));
      d.fault_desc = "message bit " + std::to_string(bit) + " flipped";
    }
    stat("flip_message");
  } else if (wf == "msglen") {
    if (c.i("n") % 2 == 0 && !msg.empty())
      d.msg.pop_back();
    else
      d.msg.push_back((uint8_t)(r.next() >> 56));
    d.fault_desc = "message length changed by one";
    stat("message_length");
  } else if (wf == "flippk") {
    // meaningful bits of C and pt (2n)
    size_t bit = (size_t)(c.u("bit") % (2 * (size_t)p.n));
    size_t field = bit / p.n, b = bit % p.n;
    d.pk[1 + field * p.ios + (b >> 3)] ^= (uint8_t)(0x80 >> (b & 7));
    d.fault_desc = "public key bit " + std::to_string(bit) + " flipped";
    stat("flip_public_key");
  } else if (wf == "garbagepk") {
    // an arbitrary in-memory public key: any of the 256 parameter bytes, arbitrary field bytes (padding bits included)
    int q = (c.u("n") & 1) ? p.id : (int)(c.u("bit") % 256);
    d.pk = r.take(std::max<size_t>(tc_sizeof_publickey, 1 + 2 * (size_t)p.ios));
    d.pk[0] = (uint8_t)q;
    d.vparam = (q >= 1 && q <= 12) ? q : p.id;
    d.fault_desc = "arbitrary bytes as in-memory public key, parameter byte " + std::to_string(q);
    stat("garbage_public_key");
  } else if (wf == "misroute") {
    int q = (int)c.i("param2", 0);
    if (q == 0 || q == p.id)
      q = SAMEKEY_PEER[p.id];
    const model::Params* qp = model::params(q);
    if (!qp || !generic_enabled(q)) {
      o.skipped = true;
      return false;
    }
    d.vparam = q;
    if (qp->n == p.n && qp->r == p.r) { // same LowMC instance: the very same key material is valid there
      d.pk[0] = (uint8_t)q;
      d.fault_desc = "delivered under parameter set " + std::string(qp->name) + " (same key material)";
    } else {
      model::Key k2 = key_from_case(c, *qp);
      d.pk = model::ser_pk(k2);
      d.fault_desc = "delivered under parameter set " + std::string(qp->name);
    }
    stat("misroute");
  } else if (wf == "reroll") {
    // structurally well-formed garbage: keep the challenge (hence every offset) and re-roll every other field,
    // padding bits left zero, so that parsing succeeds and the verifier goes all the way
    auto lay = model::sig_layout(p, sig);
    if (lay.empty()) {
      o.skipped = true;
      return false;
    }
    bool only_some = c.u("n") & 1; // either everything or one random field
    size_t pickf = 1 + (size_t)(c.u("which") % (lay.size() - 1));
    for (size_t fi = 0; fi < lay.size(); fi++) {
      auto& f = lay[fi];
      if (f.name == "challenge" || f.len == 0 || (only_some && fi != pickf))
        continue;
      for (size_t i = 0; i < f.len; i++)
        d.sig[f.off + i] = (uint8_t)(r.next() >> 56);
      if (f.padbits)
        d.sig[f.off + f.len - 1] &= (uint8_t)(0xff << f.padbits);
    }
    d.fault_desc = only_some ? "field '" + lay[pickf].name + "' re-rolled (well-formed)" : "every field but the challenge re-rolled (well-formed)";
    stat("reroll_wellformed");
  } else if (wf == "zerosig") {
    if (p.kkw) {
      o.skipped = true;
      return false;
    }
    std::vector<uint8_t> e0(p.T, 0);
    d.sig.assign(model::zkb_sig_size(p, e0), 0); // parses: all-zero challenge is canonical, all padding zero
    d.fault_desc = "all-zero signature of the all-zero-challenge length";
    stat("zero_signature");
  } else if (wf == "arbitrary") {
    size_t mx = picnic_signature_size(p.id);
    size_t n = (size_t)(c.u("n") % (mx + 65));
    d.sig = r.take(n);
    std::string pat = c.s("pat", "rand");
    if (pat == "zero")
      std::fill(d.sig.begin(), d.sig.end(), 0);
    else if (pat == "ff")
      std::fill(d.sig.begin(), d.sig.end(), 0xff);
    else if (pat == "head") // valid head (challenge + salt), arbitrary body
      for (size_t i = 0; i < std::min(n, (size_t)96) && i < len; i++)
        d.sig[i] = sig[i];
    d.fault_desc = "arbitrary bytes, length " + std::to_string(n) + " (" + pat + ")";
    stat("arbitrary_bytes");
  } else {
    o.machinery = true;
    o.fail("MACHINERY.unknown_wire_fault", wf);
    return false;
  }
  d.intact = (d.sig == sig && d.msg == msg && d.pk == model::ser_pk(k) && d.vparam == p.id);
  return true;
}

void op_verify(const Case& c, TaskCtx& t, Outcome& o) {
  int param = (int)c.i("param", 1), surf = (int)c.i("surf", 0);
  const model::Params* pp = model::params(param);
  if (!pp || !generic_enabled(param) || !surface_available(surf, param)) {
    o.skipped = true;
    return;
  }
  const model::Params& p = *pp;
  model::Key k = key_from_case(c, p);
  bytes msg = msg_from_case(c);
  HonestInfo hi;
  if (c.s("sigsrc") == "model") { // a specification-valid signature the library's signer had no part in
    hi.sig = model_signature(k, msg);
    HonestInfo tmp;
    hi.perms = honest_info(k, msg, tmp) ? tmp.perms : 100000;
  } else if (!honest_info(k, msg, hi)) {
    o.fail("C01.sign_failed", std::string(p.name) + ": could not create the honest signature for a wire scenario");
    return;
  }
  Delivered d;
  if (c.s("wf") == "nearmiss") {
    // a cheating prover who knows (sk, pt) signs - per specification, with the reference model - for a public key whose
    // ciphertext differs from LowMC_sk(pt) in one bit; the specification's verifier rejects (outputs do not match C')
    model::Key k2 = k;
    size_t b = (size_t)(c.u("bit") % (uint64_t)p.n);
    if (c.u("n") & 1)
      b = (size_t)p.n - 1 - (size_t)((c.u("bit") >> 8) % 8); // the ragged end of the field
    k2.C[b >> 3] ^= (uint8_t)(0x80 >> (b & 7));
    {
      bytes xr = extra_randomness_bytes(p);
      d.sig = model::sign(p, k2.sk, k2.C, k2.pt, msg, nullptr, nullptr, &xr);
    }
    d.msg = msg;
    d.pk = model::ser_pk(k2);
    d.vparam = p.id;
    d.intact = false;
    d.fault_desc = "a specification-conforming signature for a public key whose ciphertext bit " + std::to_string(b) + " is not the LowMC output";
    if (t.stats)
      t.stats->hit("fault.wire_near_miss_public_key");
  } else if (!apply_wire_fault(c, p, k, msg, hi.sig, d, t, o))
    return;
  if ((d.vparam != param || c.s("wf") == "garbagepk") && surf != 0)
    surf = 0; // misrouting / arbitrary parameter bytes are expressed through the parameter byte of the generic surface
  if (surf == 2 && !surface_available(2, param))
    surf = 0;
  const model::Params& vp = *model::params(d.vparam);
  // place inputs: exact-size, last byte before an unmapped page, read-only
  bool edge = c.s("place", "edge") == "edge";
  EdgeBuf sbuf, mbuf;
  bytes sig_copy = d.sig, msg_copy = d.msg;
  static const uint8_t nonnull_empty = 0;
  const uint8_t *sp = sig_copy.empty() ? &nonnull_empty : sig_copy.data(), *mp = msg_copy.empty() ? &nonnull_empty : msg_copy.data();
  if (edge) {
    sbuf.alloc(d.sig.size(), d.sig.data());
    mbuf.alloc(d.msg.size(), d.msg.data());
    sbuf.readonly(true);
    mbuf.readonly(true);
    sp = sbuf.p;
    mp = mbuf.p;
  }
  if (c.i("mnull", 0) && d.msg.empty() && !edge)
    mp = nullptr; // the empty message as (NULL, 0)
  bytes pkst;
  if (surf == 1) {
    pkst.assign(d.pk.begin() + 1, d.pk.end());
    pkst.resize(std::max<size_t>(tc_param_struct_sizes[d.vparam][0], pkst.size()), 0x77);
  } else {
    pkst = d.pk;
    pkst.resize(std::max<size_t>(tc_sizeof_publickey, pkst.size()), 0x77);
  }
  bytes pk_before = pkst;
  t.env.perm_budget = 4 * hi.perms + 64 + 4 * (d.msg.size() / 136 + 1);
  int rc;
  EdgeBuf framebuf, pkbuf, mout;
  if (surf == 2) {
    // the NIST-style opener is a verifier too: the delivered triple framed as LE32(len) || msg || sig
    bytes frame;
    uint32_t L = (uint32_t)d.sig.size();
    for (int i = 0; i < 4; i++)
      frame.push_back((uint8_t)(L >> (8 * i)));
    frame.insert(frame.end(), d.msg.begin(), d.msg.end());
    frame.insert(frame.end(), d.sig.begin(), d.sig.end());
    framebuf.alloc(frame.size(), frame.data());
    framebuf.readonly(true);
    pkbuf.alloc(d.pk.size(), d.pk.data());
    pkbuf.readonly(true);
    mout.alloc(frame.size(), nullptr, 0xC7);
    unsigned long long mlen = 0xdeadbeefcafef00dULL;
    rc = libcall(t, [&] { return nist_api(param).open(mout.p, &mlen, framebuf.p, frame.size(), pkbuf.p); });
    framebuf.readonly(false);
    pkbuf.readonly(false);
    if (memcmp(framebuf.p, frame.data(), frame.size()) != 0 || memcmp(pkbuf.p, d.pk.data(), d.pk.size()) != 0)
      CHECK_FAIL("C05.const_input_modified", std::string(vp.name) + ": crypto_sign_open modified its const input (" + d.fault_desc + ")");
    if (rc == 0 && d.intact && (mlen != d.msg.size() || memcmp(mout.p, d.msg.data(), d.msg.size()) != 0))
      CHECK_FAIL("C16.opened_message_wrong", std::string(vp.name) + ": opened message/length wrong");
  } else
    rc = libcall(t, [&] {
      if (surf == 1)
        return param_api(d.vparam).verify(pkst.data(), mp, d.msg.size(), sp, d.sig.size());
      return picnic_verify(pkst.data(), mp, d.msg.size(), sp, d.sig.size());
    });
  t.env.perm_budget = 0;
  if (edge) {
    sbuf.readonly(false);
    mbuf.readonly(false);
  }
  o.digest = digest_of(rc, 0, nullptr, 0);
  o.summary = "rc=" + std::to_string(rc) + (d.intact ? " intact" : " " + d.fault_desc);
  if (G.solo_pass)
    return; // the solo execution only supplies the result; oracle clauses are evaluated in the history run
  if (t.stats) {
    t.stats->hit("op.verify");
    t.stats->hit(d.intact ? "verify.intact" : "verify.altered");
    t.stats->tuple(std::string(vp.name) + "|" + family_tag(c) + "|verify|surf" + std::to_string(surf) + "|" + c.s("wf", "none") + "|" + (rc == 0 ? "accept" : "reject"));
  }
  // const inputs unchanged (C05)
  bool same = edge ? (sbuf.n == d.sig.size() && !memcmp(sbuf.p, d.sig.data(), d.sig.size()) && !memcmp(mbuf.p, d.msg.data(), d.msg.size()))
                   : (sig_copy == d.sig && msg_copy == d.msg);
  if (!same || pkst != pk_before)
    CHECK_FAIL("C05.const_input_modified", std::string(vp.name) + ": verify modified its const input (" + d.fault_desc + ")");
  if (d.intact && rc != 0)
    CHECK_FAIL(c.s("sigsrc") == "model" ? "C02.valid_signature_rejected" : "C01.honest_signature_rejected",
                        std::string(p.name) + " " + family_tag(c) + " surf" + std::to_string(surf) + ": intact delivery rejected, mlen=" + std::to_string(msg.size()));
  if (!d.intact && rc == 0)
    CHECK_FAIL("C02.accepted_altered", std::string(vp.name) + " " + family_tag(c) + " surf" + std::to_string(surf) + ": accepted although " + d.fault_desc);
}

// ------------------------------------------------------------------------------------------------ the same call on two nodes (C04, C10)
// Cheap differential at volume: one (key, message) signed on the AVX2 node and on the SSE2 node of the same build; the
// bytes must be equal. Needs neither the model nor a verifier, so rare data-dependent slips in one family (per-signature
// probability 1e-3..1e-2) are reached within the quick budget.
void op_signdiff(const Case& c, TaskCtx& t, Outcome& o) {
  int param = (int)c.i("param", 1), surf = (int)c.i("surf", 0);
  const model::Params* pp = model::params(param);
  if (!pp || !generic_enabled(param) || !surface_available(surf, param) || !G.cpu_seam || G.node_override == "sse2") {
    o.skipped = true;
    return;
  }
  const model::Params& p = *pp;
  model::Key k = key_from_case(c, p);
  bytes msg = msg_from_case(c);
  size_t mx = picnic_signature_size(param);
  bytes a(mx), b(mx);
  size_t la = mx, lb = mx;
  static const uint8_t nonnull_empty3 = 0;
  const uint8_t* mp = msg.empty() ? &nonnull_empty3 : msg.data();
  // both calls are part of the simulated history (yield points, step clock), each under its own capability word
  t.env.caps_mask = caps_for_node("avx2");
  int ra = libcall(t, [&] { return s_sign(surf, k, mp, msg.size(), a.data(), &la); });
  t.env.caps_mask = caps_for_node("sse2");
  int rb = libcall(t, [&] { return s_sign(surf, k, mp, msg.size(), b.data(), &lb); });
  bool same = ra == rb && (ra != 0 || (la == lb && memcmp(a.data(), b.data(), la) == 0));
  o.digest = digest_of(ra, ra == 0 ? la : 0, a.data(), ra == 0 ? la : 0);
  o.summary = "rc=" + std::to_string(ra) + "/" + std::to_string(rb) + " len=" + std::to_string(la) + "/" + std::to_string(lb);
  if (G.solo_pass)
    return;
  if (t.stats) {
    t.stats->hit("op.signdiff");
    t.stats->tuple(std::string(p.name) + "|" + G.variant + "|signdiff|surf" + std::to_string(surf) + "|" + (same ? "equal" : "DIFFER"));
  }
  if (!same) {
    size_t d = 0;
    while (d < la && d < lb && a[d] == b[d])
      d++;
    CHECK_FAIL(owned("C04.families_disagree_on_signature", {"C10", "C03", "C01"}), std::string(p.name) + " surf" + std::to_string(surf) + " mlen=" + std::to_string(msg.size()) + " key=" + c.s("kpat", "rand") +
                                                                                     ": the AVX2 node and the SSE2 node of the same build sign differently (rc " + std::to_string(ra) + "/" +
                                                                                     std::to_string(rb) + ", len " + std::to_string(la) + "/" + std::to_string(lb) + ", first difference at byte " +
                                                                                     std::to_string(d) + ")");
  }
}

// ------------------------------------------------------------------------------------------------ corrupted key -> sign (C12)
void op_signbad(const Case& c, TaskCtx& t, Outcome& o) {
  static const uint8_t nonnull_empty2 = 0;
  int param = (int)c.i("param", 1), surf = (int)c.i("surf", 0);
  const model::Params* pp = model::params(param);
  if (!pp || !generic_enabled(param) || !surface_available(surf, param)) {
    o.skipped = true;
    return;
  }
  const model::Params& p = *pp;
  model::Key k = key_from_case(c, p);
  bytes msg = msg_from_case(c);
  bytes ser = model::ser_sk(k);
  bytes st = generic_sk_struct(k); // serialised key followed by struct junk
  // corruption: list of bit indices; 0..7 parameter byte (MSB first), then the 3n meaningful bits of sk, C, pt
  std::vector<int64_t> flips;
  {
    std::istringstream is(c.s("cf"));
    std::string tok;
    while (std::getline(is, tok, ','))
      if (!tok.empty())
        flips.push_back(std::stoll(tok));
  }
  bool parambit = false;
  for (int64_t f : flips) {
    f %= (8 + 3 * p.n);
    if (f < 8) {
      st[0] ^= (uint8_t)(0x80 >> f);
      parambit = true;
    } else {
      int64_t b = f - 8, field = b / p.n, bit = b % p.n;
      st[1 + field * p.ios + (bit >> 3)] ^= (uint8_t)(0x80 >> (bit & 7));
    }
  }
  if (parambit && surf == 1) {
    o.skipped = true; // per-parameter structures carry no parameter byte
    return;
  }
  // expected verdict from the model, under whatever parameter byte the structure now carries
  int pb = st[0];
  const model::Params* qp = model::params(pb);
  bool expect_ok = false;
  model::Key kq;
  if (qp && generic_enabled(pb)) {
    const model::Params& q = *qp;
    bytes sk(st.begin() + 1, st.begin() + 1 + q.ios), C(st.begin() + 1 + q.ios, st.begin() + 1 + 2 * q.ios), pt(st.begin() + 1 + 2 * q.ios, st.begin() + 1 + 3 * q.ios);
    uint8_t mask = (uint8_t)(0xff << (8 * q.ios - q.n));
    bytes skm = sk, ptm = pt;
    skm[q.ios - 1] &= mask;
    ptm[q.ios - 1] &= mask;
    bytes Cm = model::lowmc_encrypt_bytes(q, skm, ptm);
    bool padclean = (sk[q.ios - 1] & ~mask) == 0 && (pt[q.ios - 1] & ~mask) == 0 && (C[q.ios - 1] & ~mask) == 0;
    if (Cm == C && padclean) {
      expect_ok = true;
      kq.param = pb;
      kq.sk = sk;
      kq.C = C;
      kq.pt = pt;
    } else if (!padclean && std::equal(Cm.begin(), Cm.end() - 1, C.begin()) && ((Cm[q.ios - 1] ^ C[q.ios - 1]) & mask) == 0) {
      o.skipped = true; // consistent on the meaningful bits but padding set: the property does not say
      return;
    }
  }
  size_t mx = picnic_signature_size(param);
  size_t cap = std::max(mx, (size_t)picnic_signature_size(pb > 0 && pb < 13 ? pb : param));
  if (cap == 0)
    cap = mx;
  uint8_t fill = 0xC7;
  CanaryBuf cb(cap, fill);
  size_t len = cap;
  int rc;
  if (surf == 1) {
    bytes pst(st.begin() + 1, st.begin() + 1 + 3 * p.ios);
    pst.resize(std::max<size_t>(tc_param_struct_sizes[param][1], pst.size()), 0x77);
    rc = libcall(t, [&] { return param_api(param).sign(pst.data(), msg.empty() ? &nonnull_empty2 : msg.data(), msg.size(), cb.p(), &len); });
  } else if (surf == 2) {
    const NistApi& na = nist_api(param);
    bytes sm(msg.size() + na.consts[2] + 16, fill);
    unsigned long long smlen = 0xdeadbeefcafef00dULL;
    bytes skser(st.begin(), st.begin() + 1 + 3 * p.ios);
    EdgeBuf skb(skser.size(), skser.data());
    rc = libcall(t, [&] { return na.sign(sm.data(), &smlen, msg.empty() ? &nonnull_empty2 : msg.data(), msg.size(), skb.p); });
    if (rc != 0) {
      for (size_t i = 0; i < sm.size(); i++)
        if (sm[i] != fill)
          CHECK_FAIL("C12.wrote_output_on_refusal", std::string(p.name) + " NIST surface: signed-message buffer modified although signing was refused");
    } else if (smlen >= 4 + msg.size()) {
      len = (size_t)smlen - 4 - msg.size();
      memcpy(cb.p(), sm.data() + 4 + msg.size(), std::min(len, cap));
    }
    if (parambit)
      expect_ok = false; // the NIST entry point is bound to its own parameter set
  } else
    rc = libcall(t, [&] { return picnic_sign(st.data(), msg.empty() ? &nonnull_empty2 : msg.data(), msg.size(), cb.p(), &len); });
  o.digest = digest_of(rc, 0, nullptr, 0);
  o.summary = "rc=" + std::to_string(rc) + " flips=" + c.s("cf") + " expect=" + (expect_ok ? "sign" : "refuse");
  if (G.solo_pass)
    return; // the solo execution only supplies the result; oracle clauses are evaluated in the history run
  if (t.stats) {
    t.stats->hit("op.signbad");
    t.stats->hit(expect_ok ? "c12.still_consistent" : "c12.inconsistent");
    if (parambit)
      t.stats->hit("c12.param_byte_flip");
    t.stats->tuple(std::string(p.name) + "|" + family_tag(c) + "|signbad|surf" + std::to_string(surf) + "|" + (parambit ? "parambit" : flips.size() > 1 ? "multibit" : "bit") +
                   "|" + (rc == 0 ? "signed" : "refused"));
  }
  if (!cb.canaries_intact())
    CHECK_FAIL("C12.wrote_outside_buffer", "canary around the output buffer changed");
  if (!expect_ok) {
    if (rc == 0)
      CHECK_FAIL(owned("C12.signed_with_inconsistent_key", {"C17"}), std::string(p.name) + " " + family_tag(c) + " surf" + std::to_string(surf) + ": sign returned 0 for a key corrupted at bit(s) " +
                                                                  c.s("cf") + " (0-7 parameter byte, then sk, C, pt)");
    if (surf != 2 && cb.first_touched_from(0) != cap)
      CHECK_FAIL("C12.wrote_output_on_refusal", std::string(p.name) + ": output buffer modified at byte " + std::to_string(cb.first_touched_from(0)) +
                                                             " although signing was refused");
  } else {
    if (rc != 0)
      FAIL_STOP("C12.refused_consistent_key", std::string(p.name) + ": key is consistent under parameter byte " + std::to_string(pb) + " but signing was refused");
    bytes sig(cb.p(), cb.p() + std::min(len, cap));
    int v = cleancall([&] { return s_verify(0, kq, msg.data(), msg.size(), sig.data(), sig.size()); });
    if (v != 0)
      CHECK_FAIL("C12.signature_of_consistent_key_rejected", "signature made with a consistent key does not verify under parameter byte " + std::to_string(pb));
  }
}

// ------------------------------------------------------------------------------------------------ messages of 4 GiB and more
// "A message of any length": lengths that do not fit 32 bits. The message is a read-only, never-written anonymous mapping
// (every page is the kernel's shared zero page, so 4 GiB cost no memory) whose last byte abuts an unmapped page. What a
// length narrowed to 32 bits somewhere on the way to the sponge does is decided by three observations: the call returns
// within its step / CPU budget without a memory error (C05); a signature made for the first (len mod 2^32) bytes is NOT
// accepted for the whole message (C02); sub=sign: signing succeeds and the signature verifies for the whole message and is
// not the signature of the truncated one (C01).
struct HugeMap {
  uint8_t* base = nullptr;
  size_t total = 0;
  uint8_t* p = nullptr;
  bool map(uint64_t n) {
    const size_t PG = 4096;
    size_t data = (size_t)((n + PG - 1) / PG * PG);
    if (data == 0)
      data = PG;
    total = data + PG;
    base = (uint8_t*)mmap(nullptr, total, PROT_READ, MAP_PRIVATE | MAP_ANONYMOUS | MAP_NORESERVE, -1, 0);
    if (base == MAP_FAILED) {
      base = nullptr;
      return false;
    }
    mprotect(base + data, PG, PROT_NONE);
    p = base + data - n;
    return true;
  }
  ~HugeMap() {
    if (base)
      munmap(base, total);
  }
};
void op_hugemsg(const Case& c, TaskCtx& t, Outcome& o) {
  int param = (int)c.i("param", 1), surf = (int)c.i("surf", 0);
  const model::Params* pp = model::params(param);
  if (!pp || !generic_enabled(param) || !surface_available(surf, param) || sizeof(size_t) < 8) {
    o.skipped = true;
    return;
  }
  const model::Params& p = *pp;
  uint64_t len = c.u("mlen", (1ULL << 32) + 5);
  model::Key k = key_from_case(c, p);
  bool dosign = c.s("sub", "verify") == "sign";
  // the short relative: the first (len mod 2^16) bytes of the same all-zero message (= len mod 2^32 for lengths just above 2^32)
  bytes shortmsg((size_t)(len & 0xFFFF), 0);
  HonestInfo hi;
  if (!honest_info(k, shortmsg, hi))
    FAIL_STOP("C01.sign_failed", std::string(p.name) + ": could not create the honest signature of the short message");
  HugeMap hm;
  if (!hm.map(len)) {
    o.skipped = true; // no address space for the mapping: nothing is asserted
    if (t.stats)
      t.stats->hit("skipped.no_address_space_for_huge_message");
    return;
  }
  int rate = p.dig == 32 ? 168 : 136;
  // hash work of an honest call: the message is absorbed once per pass (signing: seed derivation and challenge; verifying:
  // challenge), everything else is what the short relative costs
  uint64_t per_pass = len / (uint64_t)rate + 2;
  size_t mx = picnic_signature_size(param);
  bytes sig = hi.sig;
  int rc_sign = 0;
  if (dosign) {
    sig.assign(mx, 0);
    size_t sl = mx;
    t.env.perm_budget = 4 * (2 * per_pass + hi.perms) + 64;
    rc_sign = libcall(t, [&] { return s_sign(surf, k, hm.p, (size_t)len, sig.data(), &sl); });
    t.env.perm_budget = 0;
    sig.resize(rc_sign == 0 && sl <= mx ? sl : 0);
  }
  t.env.perm_budget = 4 * (per_pass + hi.perms) + 64;
  int rc = 0;
  if (!dosign || rc_sign == 0)
    rc = libcall(t, [&] { return s_verify(surf, k, hm.p, (size_t)len, sig.data(), sig.size()); });
  t.env.perm_budget = 0;
  o.digest = digest_of(rc, (uint64_t)rc_sign, nullptr, 0);
  o.summary = std::string(dosign ? "sign rc=" + std::to_string(rc_sign) + " " : "") + "verify rc=" + std::to_string(rc) + " mlen=" + std::to_string(len);
  if (G.solo_pass)
    return;
  if (t.stats) {
    t.stats->hit("op.hugemsg");
    t.stats->hit(len >= (1ULL << 32) ? "fault.message_length_2^32_or_more" : "fault.message_length_just_below_2^32");
    t.stats->tuple(std::string(p.name) + "|" + family_tag(c) + "|hugemsg|surf" + std::to_string(surf) + "|" + c.s("sub", "verify") + "|" + (rc == 0 ? "accept" : "reject"));
  }
  if (dosign) {
    if (rc_sign != 0)
      CHECK_FAIL(owned("C01.sign_failed", {"C05"}), std::string(p.name) + ": sign returned " + std::to_string(rc_sign) + " for a message of " + std::to_string(len) + " bytes");
    else if (rc != 0)
      CHECK_FAIL(owned("C01.honest_signature_rejected", {"C05"}), std::string(p.name) + ": the signature of a message of " + std::to_string(len) + " bytes is rejected");
    else if (sig == hi.sig)
      CHECK_FAIL(owned("C03.differs_from_specification", {"C01", "C05"}), std::string(p.name) + ": the signature of an all-zero message of " + std::to_string(len) +
                                                                          " bytes equals the signature of its first " + std::to_string(shortmsg.size()) + " bytes (length narrowed on the way to the hash)");
  } else if (rc == 0)
    CHECK_FAIL(owned("C02.accepted_altered", {"C05"}), std::string(p.name) + " surf" + std::to_string(surf) + ": a signature of the first " + std::to_string(shortmsg.size()) +
                                                         " bytes is accepted for the all-zero message of " + std::to_string(len) + " bytes");
}
} // namespace

void register_sign_ops(std::map<std::string, OpFn>& reg) {
  reg["hugemsg"] = op_hugemsg;
  reg["sign"] = op_sign;
  reg["verify"] = op_verify;
  reg["signbad"] = op_signbad;
  reg["signdiff"] = op_signdiff;
}
} // namespace sim
