/* Link-time seams (-Wl,--wrap=...): the library's view of heap, entropy, CPU and hash work goes through
 * here. With no active SimEnv every wrapper is a pure pass-through, so harness and model code are not
 * perturbed. No source edit of /repo is needed for any of these. */
#define _GNU_SOURCE
#include "env.h"
#include <errno.h>
#include <malloc.h>
#include <stdbool.h>
#include <stdlib.h>
#include <string.h>
#include <sys/types.h>
#include <pthread.h>
#include <sched.h>

static __thread SimEnv* cur_env;
void (*sim_yield_hook)(SimEnv*) = 0;
void (*sim_budget_hook)(SimEnv*) = 0;
void (*sim_wait_hook)(SimEnv*) = 0;

SimEnv* sim_env_get(void) { return cur_env; }
void sim_env_set(SimEnv* e) { cur_env = e; }
void sim_env_reset(SimEnv* e, int task) {
  memset(e, 0, sizeof *e);
  e->task = task;
  for (int i = 0; i < 4; i++)
    e->fail_at[i] = -1;
  e->rng_fail_req = -1;
  e->caps_mask = 0xffffffffu;
  e->junk = 0x9E3779B97F4A7C15ULL;
}

static inline void yield_point(SimEnv* e) {
  e->yields++;
  if (sim_yield_hook)
    sim_yield_hook(e);
}

/* ------------------------------------------------------------------ S2 heap */
void* __real_malloc(size_t);
void* __real_calloc(size_t, size_t);
void* __real_realloc(void*, size_t);
void* __real_aligned_alloc(size_t, size_t);
void __real_free(void*);

static int alloc_should_fail(SimEnv* e) {
  long k = e->n_alloc++;
  for (int i = 0; i < 4; i++)
    if (e->fail_at[i] == k) {
      e->n_alloc_failed++;
      return 1;
    }
  return 0;
}
static void fill_block(SimEnv* e, void* p, size_t n) {
  switch (e->heap_fill) {
  case HEAP_ZERO:
    memset(p, 0x00, n);
    break;
  case HEAP_A5:
    memset(p, 0xA5, n);
    break;
  case HEAP_FF:
    memset(p, 0xFF, n);
    break;
  case HEAP_JUNK: {
    uint8_t* b = p;
    uint64_t s = e->junk;
    for (size_t i = 0; i < n; i++) {
      s = s * 6364136223846793005ULL + 1442695040888963407ULL;
      b[i] = (uint8_t)(s >> 56);
    }
    e->junk = s;
    break;
  }
  default:
    break;
  }
}
void* __wrap_malloc(size_t n) {
  SimEnv* e = cur_env;
  if (!e)
    return __real_malloc(n);
  yield_point(e);
  if (alloc_should_fail(e))
    return NULL;
  void* p = __real_malloc(n);
  if (p)
    fill_block(e, p, n);
  return p;
}
void* __wrap_calloc(size_t a, size_t b) {
  SimEnv* e = cur_env;
  if (!e)
    return __real_calloc(a, b);
  yield_point(e);
  if (alloc_should_fail(e))
    return NULL;
  return __real_calloc(a, b); /* calloc's contract is zeroed memory: never perturbed */
}
void* __wrap_realloc(void* p, size_t n) {
  SimEnv* e = cur_env;
  if (!e)
    return __real_realloc(p, n);
  yield_point(e);
  if (alloc_should_fail(e))
    return NULL;
  if (!p) {
    void* q = __real_realloc(p, n);
    if (q)
      fill_block(e, q, n);
    return q;
  }
  return __real_realloc(p, n);
}
void* __wrap_aligned_alloc(size_t al, size_t n) {
  SimEnv* e = cur_env;
  if (!e)
    return __real_aligned_alloc(al, n);
  yield_point(e);
  if (alloc_should_fail(e))
    return NULL;
  void* p = __real_aligned_alloc(al, n);
  if (p)
    fill_block(e, p, n);
  return p;
}
void __wrap_free(void* p) {
  SimEnv* e = cur_env;
  if (e) {
    yield_point(e);
    e->n_free++;
    if (p && e->scribble_free) {
      size_t n = malloc_usable_size(p);
      memset(p, 0xDD, n);
    }
  }
  __real_free(p);
}

/* ------------------------------------------------------------------ S1 entropy */
ssize_t __real_getrandom(void*, size_t, unsigned);
ssize_t __wrap_getrandom(void* buf, size_t len, unsigned flags) {
  SimEnv* e = cur_env;
  if (!e || e->rng_passthrough)
    return __real_getrandom(buf, len, flags);
  yield_point(e);
  int r = e->rng_req++;
  if (r < 8)
    e->rng_req_len[r] = len;
  size_t give = len;
  if (r == e->rng_fail_req) {
    if (e->rng_fail_kind == RNGF_ERR) {
      errno = e->rng_fail_errno;
      return -1;
    }
    if (e->rng_fail_kind == RNGF_SHORT) {
      give = e->rng_short_n < 0 ? (len ? len - 1 : 0) : (size_t)e->rng_short_n;
      if (give > len)
        give = len;
    }
  }
  if (e->rng_pos + give > e->rng_len) { /* script exhausted: behave like an entropy source that is not ready */
    e->rng_exhausted = 1;
    errno = EAGAIN;
    return -1;
  }
  memcpy(buf, e->rng_buf + e->rng_pos, give);
  e->rng_pos += give;
  return (ssize_t)give;
}

/* ------------------------------------------------------------------ S3 cpu */
/* "The CPU the process happens to run on": the node's capability word, bounded by what the host can really execute.
 * The host's capabilities come from the compiler builtin, NOT from the library's own fallback detection
 * (cpu.c:init_caps uses __get_cpuid(7, ...) without the sub-leaf and reports no AVX2 on this machine, which would
 * silently turn every "AVX2" node into an SSE2 node). */
static unsigned host_caps(void) {
  static unsigned caps = 0xffffffffu;
  if (caps == 0xffffffffu) {
    unsigned c = 0;
#if defined(__x86_64__) || defined(__i386__)
    __builtin_cpu_init();
    if (__builtin_cpu_supports("sse2"))
      c |= 0x01;
    if (__builtin_cpu_supports("avx2"))
      c |= 0x04;
    if (__builtin_cpu_supports("bmi2"))
      c |= 0x10;
#endif
    caps = c;
  }
  return caps;
}
unsigned sim_host_caps(void) { return host_caps(); }
bool __real_cpu_supports(unsigned) __attribute__((weak));
bool __wrap_cpu_supports(unsigned caps) {
  SimEnv* e = cur_env;
  unsigned mask = 0xffffffffu;
  if (e) {
    e->n_caps++;
    yield_point(e);
    mask = e->caps_mask;
  }
  return ((host_caps() & mask) & caps) == caps;
}

/* ------------------------------------------------------------------ S7 clock = Keccak-f permutations */
static inline void tick(SimEnv* e, uint64_t n) {
  e->perms += n;
  yield_point(e);
  if (e->perm_budget && e->perms > e->perm_budget && sim_budget_hook)
    sim_budget_hook(e);
}
void __real_KeccakP1600_Permute_24rounds(void*) __attribute__((weak));
void __wrap_KeccakP1600_Permute_24rounds(void* s) {
  SimEnv* e = cur_env;
  if (e)
    tick(e, 1);
  __real_KeccakP1600_Permute_24rounds(s);
}
void __real_KeccakP1600times4_PermuteAll_24rounds(void*) __attribute__((weak));
void __wrap_KeccakP1600times4_PermuteAll_24rounds(void* s) {
  SimEnv* e = cur_env;
  if (e)
    tick(e, 4);
  __real_KeccakP1600times4_PermuteAll_24rounds(s);
}
size_t __real_KeccakF1600_FastLoop_Absorb(void*, unsigned, const unsigned char*, size_t) __attribute__((weak));
size_t __wrap_KeccakF1600_FastLoop_Absorb(void* s, unsigned lanes, const unsigned char* d, size_t n) {
  SimEnv* e = cur_env;
  size_t r = __real_KeccakF1600_FastLoop_Absorb(s, lanes, d, n);
  if (e && lanes)
    tick(e, r / (lanes * 8));
  return r;
}
size_t __real_KeccakF1600times4_FastLoop_Absorb(void*, unsigned, unsigned, unsigned, const unsigned char*, size_t)
    __attribute__((weak));
size_t __wrap_KeccakF1600times4_FastLoop_Absorb(void* s, unsigned lanes, unsigned lo, unsigned lao, const unsigned char* d,
                                                size_t n) {
  SimEnv* e = cur_env;
  size_t r = __real_KeccakF1600times4_FastLoop_Absorb(s, lanes, lo, lao, d, n);
  if (e && lanes)
    tick(e, 4 * (r / (lanes * 8)));
  return r;
}

/* ------------------------------------------------------------------ S8 finer yield points: the hash API */
#define YIELD_WRAP(ret, name, params, args)                                                                            \
  ret __real_##name params __attribute__((weak));                                                                      \
  ret __wrap_##name params {                                                                                           \
    SimEnv* e = cur_env;                                                                                               \
    if (e)                                                                                                             \
      yield_point(e);                                                                                                  \
    return __real_##name args;                                                                                         \
  }
YIELD_WRAP(int, Keccak_HashInitialize, (void* a, unsigned b, unsigned c, unsigned d, unsigned char e2), (a, b, c, d, e2))
YIELD_WRAP(int, Keccak_HashUpdate, (void* a, const uint8_t* b, size_t c), (a, b, c))
YIELD_WRAP(int, Keccak_HashFinal, (void* a, uint8_t* b), (a, b))
YIELD_WRAP(int, Keccak_HashSqueeze, (void* a, uint8_t* b, size_t c), (a, b, c))
YIELD_WRAP(int, Keccak_HashInitializetimes4, (void* a, unsigned b, unsigned c, unsigned d, unsigned char e2), (a, b, c, d, e2))
YIELD_WRAP(int, Keccak_HashUpdatetimes4, (void* a, const uint8_t** b, size_t c), (a, b, c))
YIELD_WRAP(int, Keccak_HashFinaltimes4, (void* a, uint8_t** b), (a, b))
YIELD_WRAP(int, Keccak_HashSqueezetimes4, (void* a, uint8_t** b, size_t c), (a, b, c))

/* ------------------------------------------------------------------ family probes (reach evidence for S3/S4) */
#define PROBE_WRAP(name, field)                                                                                        \
  void __real_##name(void*, const void*, const void*) __attribute__((weak));                                           \
  void __wrap_##name(void* c, const void* v, const void* A) {                                                          \
    SimEnv* e = cur_env;                                                                                               \
    if (e)                                                                                                             \
      e->field++;                                                                                                      \
    __real_##name(c, v, A);                                                                                            \
  }
PROBE_WRAP(mzd_addmul_v_s256_129, k_s256)
PROBE_WRAP(mzd_addmul_v_s128_129, k_s128)
PROBE_WRAP(mzd_addmul_v_uint64_129, k_u64)

/* ------------------------------------------------------------------ blocking synchronisation inside the library
 * The library has none today, but a thread-safe one-time initialisation or a lock would be a legitimate way to keep C15.
 * Under the serialising scheduler a task that blocks on something a PARKED task holds would dead-lock the simulation, so
 * the blocking primitives are made cooperative: instead of sleeping in the kernel the task hands the baton on. */
static void cooperative_wait(void) {
  SimEnv* e = cur_env;
  if (e && e->task >= 0 && sim_wait_hook)
    sim_wait_hook(e);
  else
    sched_yield();
}
int __real_pthread_mutex_lock(pthread_mutex_t*);
int __real_pthread_mutex_trylock(pthread_mutex_t*) __attribute__((weak));
int __wrap_pthread_mutex_lock(pthread_mutex_t* m) {
  SimEnv* e = cur_env;
  if (!e || e->task < 0 || !sim_wait_hook)
    return __real_pthread_mutex_lock(m);
  for (;;) {
    int rc = pthread_mutex_trylock(m);
    if (rc != EBUSY)
      return rc;
    cooperative_wait();
  }
}
#define ONCE_SLOTS 64
static struct {
  void* key;
  volatile int state; /* 0 free, 1 running, 2 done */
} once_tab[ONCE_SLOTS];
static pthread_mutex_t once_mu = PTHREAD_MUTEX_INITIALIZER;
static int once_enter(void* key) { /* 0: caller runs the init; 1: already done */
  for (;;) {
    int run = 0, done = 0, slot = -1;
    __real_pthread_mutex_lock(&once_mu);
    for (int i = 0; i < ONCE_SLOTS; i++)
      if (once_tab[i].key == key) {
        slot = i;
        break;
      }
    if (slot < 0)
      for (int i = 0; i < ONCE_SLOTS; i++)
        if (!once_tab[i].key) {
          slot = i;
          once_tab[i].key = key;
          once_tab[i].state = 0;
          break;
        }
    if (slot >= 0) {
      if (once_tab[slot].state == 0) {
        once_tab[slot].state = 1;
        run = 1;
      } else if (once_tab[slot].state == 2)
        done = 1;
    } else
      run = 1; /* table full: degrade to running it (idempotent initialisers only) */
    pthread_mutex_unlock(&once_mu);
    if (run)
      return 0;
    if (done)
      return 1;
    cooperative_wait(); /* another task is inside the initialiser */
  }
}
static void once_leave(void* key) {
  __real_pthread_mutex_lock(&once_mu);
  for (int i = 0; i < ONCE_SLOTS; i++)
    if (once_tab[i].key == key)
      once_tab[i].state = 2;
  pthread_mutex_unlock(&once_mu);
}
int __real_pthread_once(pthread_once_t*, void (*)(void));
int __wrap_pthread_once(pthread_once_t* o, void (*fn)(void)) {
  SimEnv* e = cur_env;
  if (!e) /* harness / runtime code: the real thing */
    return __real_pthread_once(o, fn);
  if (!once_enter(o)) {
    fn();
    once_leave(o);
  }
  return 0;
}
void __real_call_once(void*, void (*)(void)) __attribute__((weak));
void __wrap_call_once(void* flag, void (*fn)(void)) {
  SimEnv* e = cur_env;
  if (!e && __real_call_once) {
    __real_call_once(flag, fn);
    return;
  }
  if (!once_enter(flag)) {
    fn();
    once_leave(flag);
  }
}
