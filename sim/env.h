/* Simulated environment of one client task: everything the library can observe besides its arguments.
 * Shared between seams.c (the link-time wrappers, C) and the simulator (C++). */
#ifndef SIM_ENV_H
#define SIM_ENV_H
#include <stddef.h>
#include <stdint.h>
#ifdef __cplusplus
extern "C" {
#endif

enum { HEAP_ASIS = 0, HEAP_ZERO = 1, HEAP_A5 = 2, HEAP_FF = 3, HEAP_JUNK = 4 };
enum { RNGF_NONE = 0, RNGF_ERR = 1, RNGF_SHORT = 2 };

typedef struct SimEnv {
  int task;
  /* S2 heap */
  long n_alloc, n_free, n_alloc_failed;
  long fail_at[4]; /* allocation indices (0-based, per call) that return NULL; -1 unused */
  int heap_fill;   /* HEAP_* pattern for fresh malloc/aligned_alloc/realloc blocks */
  int scribble_free;
  uint64_t junk;
  /* S1 entropy */
  const uint8_t* rng_buf; /* scripted stream */
  size_t rng_len, rng_pos;
  int rng_req;       /* requests seen */
  int rng_fail_req;  /* request index that fails, -1 none */
  int rng_fail_kind; /* RNGF_* */
  int rng_fail_errno;
  long rng_short_n; /* bytes delivered by a short read; -1 = len-1 */
  int rng_exhausted;
  size_t rng_req_len[8];
  int rng_passthrough; /* 1: use the real getrandom (never in checked runs) */
  /* S3 cpu */
  unsigned caps_mask;
  long n_caps;
  /* S7 clock */
  uint64_t perms;
  uint64_t perm_budget; /* 0 = unlimited */
  /* S5/S8 yield points */
  long yields;
  /* family probes: calls of one representative matrix kernel per instruction-set family (LowMC-129 key addition) */
  long k_s256, k_s128, k_u64;
} SimEnv;

void sim_env_reset(SimEnv* e, int task);
unsigned sim_host_caps(void); /* SSE2=0x1, AVX2=0x4, BMI2=0x10 as the host really supports them */
/* current task's environment; NULL outside library calls => wrappers pass straight through */
SimEnv* sim_env_get(void);
void sim_env_set(SimEnv* e);
/* installed by the scheduler; called at every intercepted call while an environment is active */
extern void (*sim_yield_hook)(SimEnv*);
/* called when the step budget is exceeded (never returns) */
extern void (*sim_budget_hook)(SimEnv*);
/* installed by the scheduler: give the baton to another task because the current one waits for a lock / once-init that a
 * parked task holds (returns after the baton came back) */
extern void (*sim_wait_hook)(SimEnv*);

#ifdef __cplusplus
}
#endif
#endif
