#include "world.hpp"
#include <algorithm>
#include <cstring>

namespace sim {
Settings G;
const char* PARAM_FILES[13] = {"",           "l1_fs",      "l1_ur",      "l3_fs",   "l3_ur",   "l5_fs",  "l5_ur",
                               "picnic3_l1", "picnic3_l3", "picnic3_l5", "l1_full", "l3_full", "l5_full"};

unsigned caps_for_node(const std::string& node) {
  if (node == "sse2")
    return ~0x14u; // CPU_CAP_AVX2 | CPU_CAP_BMI2 masked out
  return 0xffffffffu;
}

void stack_poison(uint8_t pattern, size_t bytes) {
  // a frame-local array written and then abandoned; volatile so the stores are not elided
  volatile uint8_t* buf = (volatile uint8_t*)__builtin_alloca(bytes);
  for (size_t i = 0; i < bytes; i++)
    buf[i] = pattern;
  __asm__ volatile("" ::"r"(buf) : "memory");
}

static const bytes& fixed_entropy() {
  static const bytes b = Rng(0x65787472615f726eULL).take(4096);
  return b;
}
void default_entropy(SimEnv* e) {
  if (!G.extra_randomness)
    return;
  e->rng_buf = fixed_entropy().data();
  e->rng_len = fixed_entropy().size();
  e->rng_pos = 0;
}
bytes extra_randomness_bytes(const model::Params& p) {
  if (!G.extra_randomness || p.kkw)
    return {};
  return bytes(fixed_entropy().begin(), fixed_entropy().begin() + 2 * p.seed);
}
void configure_env(TaskCtx& t, const Case& c) {
  sim_env_reset(&t.env, t.task);
  default_entropy(&t.env);
  std::string node = G.node_override.empty() ? c.s("node", "avx2") : G.node_override;
  t.env.caps_mask = caps_for_node(node);
  if (G.solo_pass)
    return; // environmental perturbations are stripped in the solo-replay pass
  std::string h = c.s("f.heap");
  if (!h.empty()) {
    t.env.heap_fill = h == "zero" ? HEAP_ZERO : h == "a5" ? HEAP_A5 : h == "ff" ? HEAP_FF : h == "junk" ? HEAP_JUNK : HEAP_ASIS;
    t.env.scribble_free = 1;
    t.env.junk = mix64(c.u("f.heapseed", 1));
    if (t.stats)
      t.stats->hit("fault.heap_fill." + h);
  }
}

Case strip_env_faults(const Case& c) {
  Case o = c;
  o.erase("f.heap");
  o.erase("f.heapseed");
  o.erase("f.stack");
  return o;
}

std::string owned(const std::string& clause, std::initializer_list<const char*> also) {
  for (const char* a : also)
    if (G.own_prefix == std::string(a) + ".")
      return G.own_prefix + clause.substr(clause.find('.') + 1);
  return clause;
}
bool Outcome::fail(const std::string& c, const std::string& d) {
  bool own = G.own_prefix.empty() || c.rfind(G.own_prefix, 0) == 0 || c.rfind("MACHINERY", 0) == 0;
  if (!own) {
    foreign.push_back(c);
    return false; // noted; the operation goes on evaluating (sites where it cannot use FAIL_STOP)
  }
  if (clause.empty()) {
    clause = c;
    detail = d;
  }
  return true;
}

// ------------------------------------------------------------------ explicit inputs
static void setbit_be(bytes& b, int i) { b[i >> 3] |= (uint8_t)(1u << (7 - (i & 7))); }
model::Key key_from_case(const Case& c, const model::Params& p) {
  bytes sk(p.ios, 0), pt(p.ios, 0);
  if (c.has("ksk")) {
    sk = c.hexv("ksk");
    pt = c.hexv("kpt");
    sk.resize(p.ios);
    pt.resize(p.ios);
  } else {
    std::string pat = c.s("kpat", "rand");
    Rng r(mix64(c.u("kseed", 1) ^ 0x6b657973ULL));
    if (pat == "rand") {
      sk = r.take(p.ios);
      pt = r.take(p.ios);
    } else if (pat == "zero") {
    } else if (pat == "ones") {
      sk.assign(p.ios, 0xff);
      pt.assign(p.ios, 0xff);
    } else if (pat == "unit" || pat == "w2") {
      int64_t b = c.i("kbit", 0) % (2 * p.n);
      (b < p.n) ? setbit_be(sk, (int)b) : setbit_be(pt, (int)(b - p.n));
      if (pat == "w2") {
        int64_t b2 = c.i("kbit2", 1) % (2 * p.n);
        (b2 < p.n) ? setbit_be(sk, (int)b2) : setbit_be(pt, (int)(b2 - p.n));
      }
    } else if (pat == "alt") {
      sk.assign(p.ios, 0xAA);
      pt.assign(p.ios, 0x55);
    } else if (pat == "skzero") {
      pt = r.take(p.ios);
    } else if (pat == "ptzero") {
      sk = r.take(p.ios);
    }
  }
  return model::make_key(p, sk, pt);
}
void describe_key(Case& c, Rng& r, const model::Params& p) {
  unsigned d = (unsigned)r.below(100);
  c.setu("kseed", r.next() >> 16);
  if (d < 62)
    c.set("kpat", "rand");
  else if (d < 67)
    c.set("kpat", "zero");
  else if (d < 72)
    c.set("kpat", "ones");
  else if (d < 84) {
    c.set("kpat", "unit");
    // favour the ragged ends of the 129/255-bit fields
    int64_t b = r.chance(1, 3) ? (r.chance(1, 2) ? p.n - 1 : 2 * p.n - 1) - (int64_t)r.below(3) : (int64_t)r.below(2 * p.n);
    c.set("kbit", b);
  } else if (d < 90) {
    c.set("kpat", "w2");
    c.set("kbit", (int64_t)r.below(2 * p.n));
    c.set("kbit2", (int64_t)r.below(2 * p.n));
  } else if (d < 94)
    c.set("kpat", "alt");
  else if (d < 97)
    c.set("kpat", "skzero");
  else
    c.set("kpat", "ptzero");
}
bytes msg_from_case(const Case& c) {
  if (c.has("mhex"))
    return c.hexv("mhex");
  size_t n = (size_t)c.i("mlen", 0);
  Rng r(mix64(c.u("mseed", 7) ^ 0x6d7367ULL));
  return r.take(n);
}
void describe_msg(Case& c, Rng& r) {
  static const std::vector<int> edges = {0,   1,   2,   31,  32,  33,  119, 120, 135, 136, 137, 151, 152,
                                         167, 168, 169, 271, 272, 273, 303, 304, 335, 336, 337, 500, 512};
  const model::Params* p = model::params((int)c.i("param", 1));
  unsigned d = (unsigned)r.below(100);
  int64_t n;
  if (d < 1) {
    // lengths that do not fit 16 bits (a length folded into a hash through a narrow type deviates only here)
    // ... nor 20 bits: chunked absorption of very long inputs is a code path of its own
    static const std::vector<int> big = {65535, 65536, 65537, 65599, 70000, 131071, 131072, 196608, 1048575, 1048576, 1048577, 1200000, 2097153, 3000001};
    n = r.pick(big);
  } else if (d < 4)
    n = 0; // the empty message
  else if (d < 25)
    n = (int64_t)r.below(401);
  else if (d < 45)
    n = r.pick(edges);
  else if (d < 70 && p) {
    // lengths that make an absorb end exactly on / one byte either side of the sponge rate
    int rate = p->dig == 32 ? 168 : 136;
    std::vector<int64_t> prefixes;
    prefixes.push_back(p->ios);             // KDF: sk || msg ...
    prefixes.push_back(3 * p->ios + 2);     // KDF total
    if (p->kkw)
      prefixes.push_back((int64_t)p->dig * p->T + p->dig + 32 + 2 * p->ios);
    else {
      int64_t h3 = 1 + 3LL * p->ios * p->T + 3LL * p->dig * p->T + 2 * p->ios + 32;
      if (p->unruh)
        h3 += (int64_t)p->T * (3LL * (p->view + p->ios) + p->ios);
      prefixes.push_back(h3);
    }
    int64_t pre = r.pick(prefixes) % rate;
    int64_t k = 1 + (int64_t)r.below(3);
    n = k * rate - pre + r.range(-1, 1);
    if (n < 0)
      n += rate;
  } else if (d < 88)
    n = (int64_t)r.below(65);
  else
    n = 500 + (int64_t)r.below(3600);
  c.set("mlen", n);
  c.setu("mseed", r.next() >> 16);
  uint64_t v = r.next();
  if (n == 0 && (v & 1))
    c.set("mnull", 1); // the empty message as (NULL, 0)
  else if (n > 0 && (v & 6) == 6)
    c.setu("malign", v >> 8); // the message at an odd address
}

// ------------------------------------------------------------------ key structures
static bytes padded(const bytes& ser, size_t total) {
  bytes b(std::max(total, ser.size()), 0x77);
  std::copy(ser.begin(), ser.end(), b.begin());
  return b;
}
bytes generic_sk_struct(const model::Key& k) { return padded(model::ser_sk(k), tc_sizeof_privatekey); }
bytes generic_pk_struct(const model::Key& k) { return padded(model::ser_pk(k), tc_sizeof_publickey); }
bytes param_sk_struct(const model::Key& k) {
  bytes s = model::ser_sk(k);
  s.erase(s.begin());
  return padded(s, tc_param_struct_sizes[k.param][1]);
}
bytes param_pk_struct(const model::Key& k) {
  bytes s = model::ser_pk(k);
  s.erase(s.begin());
  return padded(s, tc_param_struct_sizes[k.param][0]);
}

bool surface_available(int surf, int param) {
  if (param < 1 || param > 12)
    return false;
  if (surf == 0)
    return true;
  if (surf == 1)
    return param_api(param).present();
  return nist_api(param).present();
}
static const uint8_t NONNULL_EMPTY = 0;
int s_sign(int surf, const model::Key& k, const uint8_t* m, size_t ml, uint8_t* sig, size_t* siglen) {
  if (!m)
    m = &NONNULL_EMPTY; // an empty message is passed as a valid pointer with length 0
  if (surf == 1) {
    bytes s = param_sk_struct(k);
    return param_api(k.param).sign(s.data(), m, ml, sig, siglen);
  }
  bytes s = generic_sk_struct(k);
  return picnic_sign(s.data(), m, ml, sig, siglen);
}
int s_verify(int surf, const model::Key& k, const uint8_t* m, size_t ml, const uint8_t* sig, size_t siglen) {
  if (!m)
    m = &NONNULL_EMPTY;
  if (!sig)
    sig = &NONNULL_EMPTY;
  if (surf == 1) {
    bytes s = param_pk_struct(k);
    return param_api(k.param).verify(s.data(), m, ml, sig, siglen);
  }
  bytes s = generic_pk_struct(k);
  return picnic_verify(s.data(), m, ml, sig, siglen);
}
size_t s_signature_size(int surf, int param) {
  if (surf == 1)
    return param_api(param).signature_size();
  return picnic_signature_size(param);
}

// ------------------------------------------------------------------ caches
static std::mutex cache_mu;
static std::map<std::string, bytes> honest_cache, model_cache;
static std::map<std::string, model::Trace> model_trace_cache;
static std::string cache_key(const model::Key& k, const bytes& msg) {
  Fnv f;
  f.buf(msg.data(), msg.size());
  return std::to_string(k.param) + ":" + model::hex(k.sk) + ":" + model::hex(k.pt) + ":" + model::hex(k.C) + ":" +
         std::to_string(msg.size()) + ":" + hex64(f.h);
}
bool honest_signature(const model::Key& k, const bytes& msg, bytes& sig) {
  std::string ck = cache_key(k, msg);
  {
    std::lock_guard<std::mutex> lk(cache_mu);
    auto it = honest_cache.find(ck);
    if (it != honest_cache.end()) {
      sig = it->second;
      return !sig.empty();
    }
  }
  size_t mx = picnic_signature_size(k.param);
  bytes out(mx ? mx : 1);
  size_t len = mx;
  int rc = cleancall([&] { return s_sign(0, k, msg.data(), msg.size(), out.data(), &len); });
  if (rc != 0 || len > mx)
    out.clear();
  else
    out.resize(len);
  std::lock_guard<std::mutex> lk(cache_mu);
  if (honest_cache.size() > 512)
    honest_cache.clear();
  honest_cache[ck] = out;
  sig = out;
  return !sig.empty();
}
const bytes& model_signature(const model::Key& k, const bytes& msg, model::Trace* tr) {
  std::string ck = cache_key(k, msg);
  {
    std::lock_guard<std::mutex> lk(cache_mu);
    auto it = model_cache.find(ck);
    if (it != model_cache.end()) {
      if (tr)
        *tr = model_trace_cache[ck];
      return it->second;
    }
  }
  model::Trace t;
  bytes xr = extra_randomness_bytes(*model::params(k.param));
  bytes s = model::sign(*model::params(k.param), k.sk, k.C, k.pt, msg, &t, nullptr, &xr);
  std::lock_guard<std::mutex> lk(cache_mu);
  if (model_cache.size() > 256) {
    model_cache.clear();
    model_trace_cache.clear();
  }
  model_trace_cache[ck] = t;
  if (tr)
    *tr = t;
  return model_cache[ck] = s;
}

// ------------------------------------------------------------------ S10 programmable oracle
static const model::Challenge* g_forced = nullptr;
static void hook_zkbpp(unsigned int T, uint8_t* ch) {
  if (!g_forced || g_forced->e.empty())
    return;
  for (unsigned i = 0; i < T && i < g_forced->e.size(); i++)
    ch[i] = g_forced->e[i];
}
static void hook_kkw(unsigned int, unsigned int u, unsigned int, uint16_t* C, uint16_t* P) {
  if (!g_forced || g_forced->C.empty())
    return;
  for (unsigned i = 0; i < u && i < g_forced->C.size(); i++) {
    C[i] = g_forced->C[i];
    P[i] = g_forced->P[i];
  }
}
ForcedChallenge::ForcedChallenge(const model::Challenge* ch) : active(ch != nullptr) {
  if (!active)
    return; // the hook pointers are never touched by ordinary operations
  g_forced = ch;
  if (&picnic_verif_challenge_zkbpp)
    picnic_verif_challenge_zkbpp = hook_zkbpp;
  if (&picnic_verif_challenge_kkw)
    picnic_verif_challenge_kkw = hook_kkw;
}
ForcedChallenge::~ForcedChallenge() {
  if (!active)
    return;
  g_forced = nullptr;
  if (&picnic_verif_challenge_zkbpp)
    picnic_verif_challenge_zkbpp = nullptr;
  if (&picnic_verif_challenge_kkw)
    picnic_verif_challenge_kkw = nullptr;
}

// "och" spec: ZKB++: all0|all1|all2|cyc|rand|mod4:<v>:<k> ; KKW: max|first|last|spread|rand + "op"=hidden party rule
model::Challenge challenge_from_case(const Case& c, const model::Params& p) {
  model::Challenge ch;
  std::string spec = c.s("och");
  Rng r(mix64(c.u("oseed", 1) ^ 0x6f63ULL));
  if (!p.kkw) {
    ch.e.assign(p.T, 0);
    if (spec == "all0" || spec == "all1" || spec == "all2")
      ch.e.assign(p.T, (uint8_t)(spec[3] - '0'));
    else if (spec == "cyc")
      for (int t = 0; t < p.T; t++)
        ch.e[t] = (uint8_t)(t % 3);
    else if (spec == "nonzero")
      for (int t = 0; t < p.T; t++)
        ch.e[t] = (uint8_t)(1 + r.below(2));
    else if (spec.rfind("cnt", 0) == 0) {
      // exactly k rounds with value v (k = oa), the rest split between the other two values: exercises the
      // x4 batching remainders of the verifier
      int v = (int)c.i("ov", 0), k = (int)(c.i("oa", 0) % (p.T + 1));
      std::vector<int> idx(p.T);
      for (int t = 0; t < p.T; t++)
        idx[t] = t;
      for (int t = p.T - 1; t > 0; t--)
        std::swap(idx[t], idx[r.below(t + 1)]);
      for (int t = 0; t < p.T; t++)
        ch.e[idx[t]] = (uint8_t)(t < k ? v : (v + 1 + (int)r.below(2)) % 3);
    } else
      for (int t = 0; t < p.T; t++)
        ch.e[t] = (uint8_t)r.below(3);
  } else {
    std::vector<uint16_t> C;
    if (spec == "max")
      model::true_max_sig_size(p, &ch), C = ch.C;
    else if (spec == "first")
      for (int i = 0; i < p.u; i++)
        C.push_back((uint16_t)i);
    else if (spec == "last")
      for (int i = 0; i < p.u; i++)
        C.push_back((uint16_t)(p.T - 1 - i));
    else if (spec == "spread")
      for (int i = 0; i < p.u; i++)
        C.push_back((uint16_t)((long)i * p.T / p.u));
    else if (spec == "edge") {
      // the ragged right edge of the truncated tree: a random non-empty proper subset of the last 6 leaves is opened, the
      // rest spread randomly (single-child nodes and missing siblings only exist there)
      std::vector<uint16_t> all;
      unsigned mask = c.has("oedge") ? (unsigned)(1 + c.u("oedge") % 62) : 1 + (unsigned)r.below(62);
      for (int i = 0; i < 6; i++)
        if (mask & (1u << i))
          C.push_back((uint16_t)(p.T - 1 - i));
      for (int t = 0; t < p.T - 6; t++)
        all.push_back((uint16_t)t);
      for (int t = (int)all.size() - 1; t > 0; t--)
        std::swap(all[t], all[r.below(t + 1)]);
      for (size_t i = 0; (int)C.size() < p.u; i++)
        C.push_back(all[i]);
    } else if (spec == "ends") {
      for (int i = 0; i < p.u / 2; i++)
        C.push_back((uint16_t)i);
      for (int i = 0; (int)C.size() < p.u; i++)
        C.push_back((uint16_t)(p.T - 1 - i));
    } else {
      std::vector<uint16_t> all(p.T);
      for (int t = 0; t < p.T; t++)
        all[t] = (uint16_t)t;
      for (int t = p.T - 1; t > 0; t--)
        std::swap(all[t], all[r.below(t + 1)]);
      C.assign(all.begin(), all.begin() + p.u);
    }
    if (c.i("oshuffle", 0))
      for (int t = (int)C.size() - 1; t > 0; t--)
        std::swap(C[t], C[r.below(t + 1)]);
    ch.C = C;
    std::string pr = c.s("opar", "rand");
    ch.P.assign(p.u, 0);
    for (int i = 0; i < p.u; i++) {
      if (pr == "rand")
        ch.P[i] = (uint16_t)r.below(p.N);
      else if (pr == "last")
        ch.P[i] = (uint16_t)(p.N - 1);
      else if (pr == "cyc")
        ch.P[i] = (uint16_t)(i % p.N);
      else
        ch.P[i] = (uint16_t)(std::stoi(pr) % p.N);
    }
  }
  return ch;
}

// ------------------------------------------------------------------ dispatch
static std::map<std::string, OpFn>& registry() {
  static std::map<std::string, OpFn> r;
  static std::once_flag once;
  std::call_once(once, [] { register_ops(r); });
  return r;
}
Outcome run_op(const Case& c, TaskCtx& t) {
  Outcome o;
  auto it = registry().find(c.op());
  if (it == registry().end()) {
    o.machinery = true;
    o.fail("MACHINERY.unknown_op", c.op());
    return o;
  }
  t.cur_op = c.op();
  configure_env(t, c);
  if (!G.solo_pass && c.has("f.stack")) {
    stack_poison((uint8_t)c.i("f.stack"), 512 * 1024);
    if (t.stats)
      t.stats->hit("fault.stack_poison");
  }
  it->second(c, t, o);
  return o;
}
} // namespace sim
