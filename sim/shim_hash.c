/* Optional component shim, compiled per variant with the library's own compile flags against the snapshot's
 * kdf_shake.h: exposes the (static inline) hashing layer the scheme uses as plain functions. If it does not
 * compile after a refactor the hash scenario is unavailable (checks say so); it is never a violation. */
#ifdef HAVE_CONFIG_H
#include <config.h>
#endif
#include "kdf_shake.h"
#include <stdlib.h>
#include <string.h>

int shim_hash_available = 1;
void* shim_hash_new(size_t digest_size) {
  hash_context* c = aligned_alloc(64, (sizeof(hash_context) + 63) & ~(size_t)63);
  hash_init(c, digest_size);
  return c;
}
void* shim_hash_new_prefix(size_t digest_size, uint8_t prefix) {
  hash_context* c = aligned_alloc(64, (sizeof(hash_context) + 63) & ~(size_t)63);
  hash_init_prefix(c, digest_size, prefix);
  return c;
}
void shim_hash_update(void* c, const uint8_t* d, size_t n) { hash_update((hash_context*)c, d, n); }
void shim_hash_update_u16(void* c, uint16_t v) { hash_update_uint16_le((hash_context*)c, v); }
void shim_hash_final(void* c) { hash_final((hash_context*)c); }
void shim_hash_squeeze(void* c, uint8_t* out, size_t n) { hash_squeeze((hash_context*)c, out, n); }
void shim_hash_free(void* c) {
  hash_clear((hash_context*)c);
  free(c);
}
void* shim_hash4_new(size_t digest_size) {
  hash_context_x4* c = aligned_alloc(64, (sizeof(hash_context_x4) + 63) & ~(size_t)63);
  hash_init_x4(c, digest_size);
  return c;
}
void* shim_hash4_new_prefix(size_t digest_size, uint8_t prefix) {
  hash_context_x4* c = aligned_alloc(64, (sizeof(hash_context_x4) + 63) & ~(size_t)63);
  hash_init_prefix_x4(c, digest_size, prefix);
  return c;
}
void shim_hash4_update(void* c, const uint8_t** d, size_t n) { hash_update_x4((hash_context_x4*)c, d, n); }
void shim_hash4_update_4(void* c, const uint8_t* d0, const uint8_t* d1, const uint8_t* d2, const uint8_t* d3, size_t n) {
  hash_update_x4_4((hash_context_x4*)c, d0, d1, d2, d3, n);
}
void shim_hash4_update_1(void* c, const uint8_t* d, size_t n) { hash_update_x4_1((hash_context_x4*)c, d, n); }
void shim_hash4_update_u16(void* c, uint16_t v) { hash_update_x4_uint16_le((hash_context_x4*)c, v); }
void shim_hash4_update_u16s(void* c, const uint16_t v[4]) { hash_update_x4_uint16s_le((hash_context_x4*)c, v); }
void shim_hash4_final(void* c) { hash_final_x4((hash_context_x4*)c); }
void shim_hash4_squeeze(void* c, uint8_t** out, size_t n) { hash_squeeze_x4((hash_context_x4*)c, out, n); }
void shim_hash4_squeeze_4(void* c, uint8_t* o0, uint8_t* o1, uint8_t* o2, uint8_t* o3, size_t n) {
  hash_squeeze_x4_4((hash_context_x4*)c, o0, o1, o2, o3, n);
}
void shim_hash4_free(void* c) {
  hash_clear_x4((hash_context_x4*)c);
  free(c);
}
