// CallerMem (S6): caller-owned memory as the simulator places it. A buffer of n bytes is laid out so that
// its last byte is the last byte before an inaccessible page; inputs declared const can additionally be
// made read-only for the duration of a call, which turns a write into a fault at the writing instruction.
#pragma once
#include <cstdint>
#include <cstdio>
#include <cstdlib>
#include <cstring>
#include <sys/mman.h>
#include <vector>

namespace sim {
struct EdgeBuf {
  uint8_t* base = nullptr; // mapping start
  size_t total = 0;        // mapping size incl. guard page
  uint8_t* p = nullptr;    // buffer start (p + n == guard page)
  size_t n = 0;
  bool ro = false;
  static constexpr size_t PG = 4096;
  EdgeBuf() {}
  EdgeBuf(size_t n_, const void* src = nullptr, uint8_t fill = 0) { alloc(n_, src, fill); }
  EdgeBuf(const EdgeBuf&) = delete;
  EdgeBuf& operator=(const EdgeBuf&) = delete;
  EdgeBuf(EdgeBuf&& o) noexcept { *this = std::move(o); }
  EdgeBuf& operator=(EdgeBuf&& o) noexcept {
    release();
    base = o.base;
    total = o.total;
    p = o.p;
    n = o.n;
    ro = o.ro;
    o.base = nullptr;
    return *this;
  }
  void alloc(size_t n_, const void* src = nullptr, uint8_t fill = 0) {
    release();
    n = n_;
    size_t data = ((n + PG - 1) / PG) * PG;
    if (data == 0)
      data = PG;
    total = data + PG;
    base = (uint8_t*)mmap(nullptr, total, PROT_READ | PROT_WRITE, MAP_PRIVATE | MAP_ANONYMOUS, -1, 0);
    if (base == MAP_FAILED) {
      perror("mmap");
      abort();
    }
    mprotect(base + data, PG, PROT_NONE);
    p = base + data - n;
    memset(base, fill, data);
    if (src && n)
      memcpy(p, src, n);
  }
  void readonly(bool on) {
    if (!base || on == ro)
      return;
    mprotect(base, total - PG, on ? PROT_READ : (PROT_READ | PROT_WRITE));
    ro = on;
  }
  void release() {
    if (base) {
      munmap(base, total);
      base = nullptr;
    }
  }
  ~EdgeBuf() { release(); }
  uint64_t checksum() const {
    uint64_t h = 1469598103934665603ULL;
    for (size_t i = 0; i < n; i++)
      h = (h ^ p[i]) * 1099511628211ULL;
    return h;
  }
};

// Plain heap buffer bracketed by canaries (for outputs whose capacity is the advertised maximum or larger).
struct CanaryBuf {
  std::vector<uint8_t> raw;
  size_t n = 0;
  static constexpr size_t PAD = 256;
  uint8_t fillv = 0;
  explicit CanaryBuf(size_t n_, uint8_t fill = 0xC7) : raw(n_ + 2 * PAD, 0xE5), n(n_), fillv(fill) { memset(p(), fill, n); }
  uint8_t* p() { return raw.data() + PAD; }
  bool canaries_intact() const {
    for (size_t i = 0; i < PAD; i++)
      if (raw[i] != 0xE5 || raw[PAD + n + i] != 0xE5)
        return false;
    return true;
  }
  // first index >= from that differs from the fill pattern, or n
  size_t first_touched_from(size_t from) const {
    for (size_t i = from; i < n; i++)
      if (raw[PAD + i] != fillv)
        return i;
    return n;
  }
};

// Leave recognisable garbage on the stack below the current frame (S6 stack_poison).
void stack_poison(uint8_t pattern, size_t bytes = 64 * 1024);
} // namespace sim
