/* Compiled per library variant against the SNAPSHOT's public headers: the documented constants as the
 * tree under test states them (C11, C13, C16). */
#include "picnic.h"
#include "picnic_L1_FS/picnic_l1_fs.h"
#include "picnic_L1_UR/picnic_l1_ur.h"
#include "picnic_L3_FS/picnic_l3_fs.h"
#include "picnic_L3_UR/picnic_l3_ur.h"
#include "picnic_L5_FS/picnic_l5_fs.h"
#include "picnic_L5_UR/picnic_l5_ur.h"
#include "picnic3_L1/picnic3_l1.h"
#include "picnic3_L3/picnic3_l3.h"
#include "picnic3_L5/picnic3_l5.h"
#include "picnic_L1_full/picnic_l1_full.h"
#include "picnic_L3_full/picnic_l3_full.h"
#include "picnic_L5_full/picnic_l5_full.h"
#define ROW(M)                                                                                                         \
  {0,          M(Picnic_L1_FS), M(Picnic_L1_UR), M(Picnic_L3_FS),   M(Picnic_L3_UR),   M(Picnic_L5_FS),  M(Picnic_L5_UR), \
   M(Picnic3_L1), M(Picnic3_L3),   M(Picnic3_L5),   M(Picnic_L1_full), M(Picnic_L3_full), M(Picnic_L5_full)}
const unsigned long tc_sig_size_macro[13] = ROW(PICNIC_SIGNATURE_SIZE);
const unsigned long tc_sk_size_macro[13]  = ROW(PICNIC_PRIVATE_KEY_SIZE);
const unsigned long tc_pk_size_macro[13]  = ROW(PICNIC_PUBLIC_KEY_SIZE);
const unsigned long tc_block_size_macro[13] = ROW(LOWMC_BLOCK_SIZE);
const unsigned long tc_sizeof_publickey  = sizeof(picnic_publickey_t);
const unsigned long tc_sizeof_privatekey = sizeof(picnic_privatekey_t);
const unsigned long tc_max_sig_macro = PICNIC_MAX_SIGNATURE_SIZE;
const unsigned long tc_max_sk_macro = PICNIC_MAX_PRIVATEKEY_SIZE;
const unsigned long tc_max_pk_macro = PICNIC_MAX_PUBLICKEY_SIZE;
const unsigned long tc_param_max_index = PARAMETER_SET_MAX_INDEX;
#define SZ(T) sizeof(T##_publickey_t), sizeof(T##_privatekey_t)
const unsigned long tc_param_struct_sizes[13][2] = {
    {0, 0},           {SZ(picnic_l1_fs)},   {SZ(picnic_l1_ur)},   {SZ(picnic_l3_fs)},   {SZ(picnic_l3_ur)},
    {SZ(picnic_l5_fs)}, {SZ(picnic_l5_ur)},   {SZ(picnic3_l1)},     {SZ(picnic3_l3)},     {SZ(picnic3_l5)},
    {SZ(picnic_l1_full)}, {SZ(picnic_l3_full)}, {SZ(picnic_l5_full)}};
