// Hashing-layer fragmentation schedules (C14) and allocation-failure injection (C18).
#include "world.hpp"
#include <algorithm>
#include <cstring>
#include <fcntl.h>
#include <sys/wait.h>
#include <unistd.h>

extern "C" {
extern int shim_hash_available __attribute__((weak));
void* shim_hash_new(size_t) __attribute__((weak));
void* shim_hash_new_prefix(size_t, uint8_t) __attribute__((weak));
void shim_hash_update(void*, const uint8_t*, size_t) __attribute__((weak));
void shim_hash_update_u16(void*, uint16_t) __attribute__((weak));
void shim_hash_final(void*) __attribute__((weak));
void shim_hash_squeeze(void*, uint8_t*, size_t) __attribute__((weak));
void shim_hash_free(void*) __attribute__((weak));
void* shim_hash4_new(size_t) __attribute__((weak));
void* shim_hash4_new_prefix(size_t, uint8_t) __attribute__((weak));
void shim_hash4_update(void*, const uint8_t**, size_t) __attribute__((weak));
void shim_hash4_update_4(void*, const uint8_t*, const uint8_t*, const uint8_t*, const uint8_t*, size_t) __attribute__((weak));
void shim_hash4_update_1(void*, const uint8_t*, size_t) __attribute__((weak));
void shim_hash4_update_u16(void*, uint16_t) __attribute__((weak));
void shim_hash4_update_u16s(void*, const uint16_t*) __attribute__((weak));
void shim_hash4_final(void*) __attribute__((weak));
void shim_hash4_squeeze(void*, uint8_t**, size_t) __attribute__((weak));
void shim_hash4_squeeze_4(void*, uint8_t*, uint8_t*, uint8_t*, uint8_t*, size_t) __attribute__((weak));
void shim_hash4_free(void*) __attribute__((weak));
}

namespace sim {
namespace {
// ------------------------------------------------------------------------------------------------ hash (C14)
// sched tokens: p<b> prefix-init (first), a<n> absorb n own bytes (pointer-array / single update), b<n> absorb n own
// bytes via the 4-pointer variant, A<n> absorb the same n shared bytes in all lanes, w<v> uint16 LE (all lanes),
// W<v> four different uint16 (v, v+1, v+2, v+3), s<n> squeeze n bytes (pointer array), q<n> squeeze via 4 pointers
void op_hash(const Case& c, TaskCtx& t, Outcome& o) {
  if (!&shim_hash_available || !shim_hash_new) {
    o.skipped = true;
    if (t.stats)
      t.stats->hit("skipped.hash_shim_unavailable");
    return;
  }
  size_t dsz = (size_t)c.i("dsz", 32);
  int bits = dsz == 32 ? 128 : 256;
  bool x4 = c.s("mode", "single") == "x4";
  int lanes = x4 ? 4 : 1;
  std::vector<std::string> toks;
  {
    std::istringstream is(c.s("sched"));
    std::string tk;
    while (is >> tk)
      toks.push_back(tk);
  }
  Rng rl[4] = {Rng(mix64(c.u("seed") ^ 11)), Rng(mix64(c.u("seed") ^ 22)), Rng(mix64(c.u("seed") ^ 33)), Rng(mix64(c.u("seed") ^ 44))};
  Rng rs(mix64(c.u("seed") ^ 55));
  std::vector<model::Shake> ref;
  for (int l = 0; l < lanes; l++)
    ref.emplace_back(bits);
  bytes outs[4], exp[4];
  void* ctx = nullptr;
  bool inited = false, finalized = false;
  size_t absorbed = 0, squeezed = 0;
  auto ensure_init = [&](bool prefix, uint8_t pb) {
    if (inited)
      return;
    inited = true;
    ctx = libcall(t, [&] {
      if (x4)
        return prefix ? shim_hash4_new_prefix(dsz, pb) : shim_hash4_new(dsz);
      return prefix ? shim_hash_new_prefix(dsz, pb) : shim_hash_new(dsz);
    });
    if (prefix)
      for (auto& r : ref)
        r.absorb_u8(pb);
  };
  for (auto& tk : toks) {
    char k = tk[0];
    size_t n = (size_t)std::stoull(tk.substr(1));
    if (k == 'p') {
      ensure_init(true, (uint8_t)n);
      continue;
    }
    ensure_init(false, 0);
    if (k == 'a' || k == 'b') {
      bytes d[4];
      for (int l = 0; l < lanes; l++) {
        d[l] = rl[l].take(n);
        ref[l].absorb(d[l]);
      }
      // exact-size buffers ending at an unmapped page: an over-read by the absorb loop faults
      EdgeBuf e0(n, d[0].data()), e1, e2, e3;
      if (x4) {
        e1.alloc(n, d[1].data());
        e2.alloc(n, d[2].data());
        e3.alloc(n, d[3].data());
      }
      libcall(t, [&] {
        if (!x4)
          shim_hash_update(ctx, e0.p, n);
        else if (k == 'a') {
          const uint8_t* ptr[4] = {e0.p, e1.p, e2.p, e3.p};
          shim_hash4_update(ctx, ptr, n);
        } else
          shim_hash4_update_4(ctx, e0.p, e1.p, e2.p, e3.p, n);
        return 0;
      });
      absorbed += n;
    } else if (k == 'A') {
      bytes d = rs.take(n);
      for (auto& r : ref)
        r.absorb(d);
      EdgeBuf e0(n, d.data());
      libcall(t, [&] {
        x4 ? shim_hash4_update_1(ctx, e0.p, n) : shim_hash_update(ctx, e0.p, n);
        return 0;
      });
      absorbed += n;
    } else if (k == 'w') {
      for (auto& r : ref)
        r.absorb_le16((unsigned)n & 0xffff);
      libcall(t, [&] {
        x4 ? shim_hash4_update_u16(ctx, (uint16_t)n) : shim_hash_update_u16(ctx, (uint16_t)n);
        return 0;
      });
      absorbed += 2;
    } else if (k == 'W') {
      uint16_t v[4] = {(uint16_t)n, (uint16_t)(n + 1), (uint16_t)(n + 2), (uint16_t)(n + 3)};
      if (x4) {
        for (int l = 0; l < 4; l++)
          ref[l].absorb_le16(v[l]);
        libcall(t, [&] {
          shim_hash4_update_u16s(ctx, v);
          return 0;
        });
      } else {
        ref[0].absorb_le16(v[0]);
        libcall(t, [&] {
          shim_hash_update_u16(ctx, v[0]);
          return 0;
        });
      }
      absorbed += 2;
    } else if (k == 's' || k == 'q') {
      if (!finalized) {
        finalized = true;
        libcall(t, [&] {
          x4 ? shim_hash4_final(ctx) : shim_hash_final(ctx);
          return 0;
        });
      }
      EdgeBuf ob[4];
      for (int l = 0; l < lanes; l++)
        ob[l].alloc(n, nullptr, 0xC7);
      libcall(t, [&] {
        if (!x4)
          shim_hash_squeeze(ctx, ob[0].p, n);
        else if (k == 's') {
          uint8_t* ptr[4] = {ob[0].p, ob[1].p, ob[2].p, ob[3].p};
          shim_hash4_squeeze(ctx, ptr, n);
        } else
          shim_hash4_squeeze_4(ctx, ob[0].p, ob[1].p, ob[2].p, ob[3].p, n);
        return 0;
      });
      for (int l = 0; l < lanes; l++) {
        outs[l].insert(outs[l].end(), ob[l].p, ob[l].p + n);
        bytes e = ref[l].squeeze(n);
        exp[l].insert(exp[l].end(), e.begin(), e.end());
      }
      squeezed += n;
    }
  }
  if (ctx)
    libcall(t, [&] {
      x4 ? shim_hash4_free(ctx) : shim_hash_free(ctx);
      return 0;
    });
  Fnv f;
  for (int l = 0; l < lanes; l++)
    f.buf(outs[l].data(), outs[l].size());
  o.digest = f.h;
  o.summary = "absorbed=" + std::to_string(absorbed) + " squeezed=" + std::to_string(squeezed);
  if (G.solo_pass)
    return; // the solo execution only supplies the result; oracle clauses are evaluated in the history run
  if (t.stats) {
    t.stats->hit("op.hash");
    t.stats->hit(x4 ? "c14.x4_schedules" : "c14.single_schedules");
    int rate = bits == 128 ? 168 : 136;
    size_t m = absorbed % rate;
    t.stats->hit(m == 0 ? "c14.absorb_total_on_rate" : (m == 1 || m == (size_t)rate - 1) ? "c14.absorb_total_next_to_rate" : "c14.absorb_total_other");
    t.stats->tuple(std::string("hash|") + G.variant + "|shake" + std::to_string(bits) + "|" + (x4 ? "x4" : "single") + "|abs%rate=" + std::to_string(std::min<size_t>(m, 3)) + "|sq>" +
                   std::to_string(squeezed / rate));
  }
  for (int l = 0; l < lanes; l++)
    if (outs[l] != exp[l]) {
      size_t d = 0;
      while (d < outs[l].size() && outs[l][d] == exp[l][d])
        d++;
      CHECK_FAIL("C14.differs_from_shake", std::string("SHAKE") + std::to_string(bits) + " " + G.variant + (x4 ? " x4 lane " + std::to_string(l) : " single") + " schedule [" + c.s("sched") +
                                                        "]: output differs from one-shot SHAKE at byte " + std::to_string(d));
    }
}

// ------------------------------------------------------------------------------------------------ allocation failure (C18)
struct AfPrep {
  long nalloc = -1;
  int rc0 = 0;
};
void op_allocfail(const Case& c, TaskCtx& t, Outcome& o) {
  int param = (int)c.i("param", 1);
  const model::Params* pp = model::params(param);
  if (!pp || !generic_enabled(param)) {
    o.skipped = true;
    return;
  }
  const model::Params& p = *pp;
  std::string target = c.s("target", "sign");
  model::Key k = key_from_case(c, p);
  bytes msg = msg_from_case(c);
  bytes sig;
  if (target != "keygen" && !honest_signature(k, msg, sig))
    FAIL_STOP("C01.sign_failed", "honest signing failed");
  bytes vsig = sig;
  if (target == "verifybad") {
    size_t pos = (size_t)(c.u("bit", 12345) % vsig.size());
    if (c.has("vfield")) { // the one defect sits in a chosen kind of field, so that every kind of check is the only one that can notice
      auto lay = model::sig_layout(p, sig);
      std::vector<const model::Field*> cand;
      for (auto& f : lay)
        if (f.len && f.name.rfind(c.s("vfield"), 0) == 0)
          cand.push_back(&f);
      if (cand.empty()) {
        o.skipped = true;
        return;
      }
      const model::Field* f = cand[(size_t)(c.u("bit") % cand.size())];
      pos = f->off + (size_t)((c.u("bit") >> 16) % f->len);
    }
    vsig[pos] ^= 0x10;
  }
  else if (target == "verifytrunc")
    vsig.resize(vsig.size() - 1 - (size_t)(c.u("bit", 0) % 64));
  size_t mx = picnic_signature_size(param);
  bytes stream = Rng(mix64(c.u("rseed", 5))).take(256);
  unsigned caps = caps_for_node(G.node_override.empty() ? c.s("node", "avx2") : G.node_override);
  bytes out(mx), pk(tc_sizeof_publickey + 8), sk(tc_sizeof_privatekey + 8);
  size_t olen = mx;
  auto call = [&](SimEnv& e) -> int {
    e.caps_mask = caps;
    e.rng_buf = stream.data();
    e.rng_len = stream.size();
    SimEnv* saved = sim_env_get();
    sim_env_set(&e);
    int rc;
    if (target == "sign") {
      olen = mx;
      rc = s_sign(0, k, msg.data(), msg.size(), out.data(), &olen);
    } else if (target == "keygen")
      rc = picnic_keygen(param, pk.data(), sk.data());
    else
      rc = s_verify(0, k, msg.data(), msg.size(), vsig.data(), vsig.size());
    sim_env_set(saved);
    return rc;
  };
  // fault-free pass: how many allocations does this call make, and what is its verdict
  static std::mutex mu;
  static std::map<std::string, AfPrep> prep;
  Case kc = c;
  kc.erase("k");
  kc.erase("k2");
  std::string pk_key = kc.text();
  AfPrep ap;
  {
    std::lock_guard<std::mutex> lk(mu);
    auto it = prep.find(pk_key);
    if (it != prep.end())
      ap = it->second;
  }
  if (ap.nalloc < 0) {
    SimEnv e;
    sim_env_reset(&e, -1);
    ap.rc0 = call(e);
    ap.nalloc = e.n_alloc;
    std::lock_guard<std::mutex> lk(mu);
    if (prep.size() > 1024)
      prep.clear();
    prep[pk_key] = ap;
  }
  if (ap.nalloc == 0) {
    o.skipped = true;
    if (t.stats)
      t.stats->hit("c18.call_without_allocation");
    return;
  }
  if (c.i("kexact", 0) && c.u("k") >= (uint64_t)ap.nalloc) { // enumeration past the last allocation of this call
    o.skipped = true;
    return;
  }
  long k1 = (long)(c.u("k") % (uint64_t)ap.nalloc), k2 = c.has("k2") ? (long)(c.u("k2") % (uint64_t)ap.nalloc) : -1;
  if (c.has("kfromend"))
    k1 = std::max<long>(0, ap.nalloc - (long)c.i("kfromend"));
  if (t.stats && c.i("kexact", 0)) {
    std::string key = std::string(p.name) + "." + target + (c.has("vfield") ? ":" + c.s("vfield") : "");
    t.stats->hit("c18.enumerated." + key);
    t.stats->gauge("c18.allocations." + key, ap.nalloc);
  }
  fflush(stdout);
  fflush(stderr);
  pid_t pid = fork();
  if (pid == 0) {
    // child: the process cannot be trusted after the fault; report the outcome class through the exit status
    {
      int dn = open("/dev/null", O_WRONLY); // glibc's heap-consistency abort messages are an outcome class, not output
      if (dn >= 0) {
        dup2(dn, 2);
        close(dn);
      }
    }
    SimEnv e;
    sim_env_reset(&e, 0);
    e.fail_at[0] = k1;
    e.fail_at[1] = k2;
    // what the code reads after a failed allocation is often uninitialised: make it a function of the plan, not of the
    // worker's earlier history (fresh blocks and the stack below the call get a fixed pattern)
    std::string hp = c.s("f.heap", "a5");
    e.heap_fill = hp == "zero" ? HEAP_ZERO : hp == "ff" ? HEAP_FF : hp == "junk" ? HEAP_JUNK : HEAP_A5;
    e.scribble_free = 1;
    stack_poison(hp == "zero" ? 0x00 : hp == "ff" ? 0xFF : 0xA5, 256 * 1024);
    int rc = call(e);
    if (e.n_alloc_failed == 0)
      _exit(13); // the failing index was not reached (call took another path)
    if (rc != 0)
      _exit(10);
    int good = 0;
    if (target == "sign")
      good = olen <= mx && cleancall([&] { return s_verify(0, k, msg.data(), msg.size(), out.data(), olen); }) == 0;
    else if (target == "keygen") {
      bytes pk2(tc_sizeof_publickey + 8);
      good = cleancall([&] { return picnic_validate_keypair(sk.data(), pk.data()); }) == 0 && cleancall([&] { return picnic_sk_to_pk(sk.data(), pk2.data()); }) == 0 &&
             memcmp(pk.data(), pk2.data(), 1 + 2 * p.ios) == 0 && pk[0] == param;
    } else
      good = ap.rc0 == 0; // accepting is right only if the fault-free verdict is acceptance
    _exit(good ? 11 : 12);
  }
  int st = 0;
  waitpid(pid, &st, 0);
  std::string cls;
  if (WIFEXITED(st)) {
    int ec = WEXITSTATUS(st);
    cls = ec == 10 ? "error_return" : ec == 11 ? "correct_success" : ec == 12 ? "WRONG_SUCCESS" : ec == 13 ? "not_reached" : "abnormal_exit";
  } else
    cls = "abnormal_termination";
  // Which of the non-verdict classes (error return, abnormal termination, correct success) a faulted call ends in can
  // depend on what uninitialised memory it reads afterwards, i.e. on heap layout and therefore on the worker's earlier
  // history; the classes are counted in the statistics but only the verdict enters the event log.
  std::string verdict = cls == "WRONG_SUCCESS" ? "WRONG_SUCCESS" : "no wrong success";
  Fnv f;
  f.str(verdict);
  o.digest = f.h;
  o.summary = target + " alloc " + std::to_string(k1) + (k2 >= 0 ? "+" + std::to_string(k2) : "") + "/" + std::to_string(ap.nalloc) + " -> " + verdict;
  if (G.solo_pass)
    return; // the solo execution only supplies the result; oracle clauses are evaluated in the history run
  if (t.stats) {
    t.stats->hit("op.allocfail");
    t.stats->hit("fault.alloc_fail.fired", cls == "not_reached" ? 0 : 1);
    t.stats->hit("c18.outcome." + cls);
    t.stats->tuple(std::string(p.name) + "|" + target + (c.has("vfield") ? ":" + c.s("vfield") : "") + "|alloc_fail|" + (k2 >= 0 ? "double" : "single") + "|bucket" + std::to_string(k1 * 8 / ap.nalloc) + "|" + cls);
  }
  if (cls == "WRONG_SUCCESS")
    CHECK_FAIL("C18.wrong_success", std::string(p.name) + " " + target + ": allocation " + std::to_string(k1) + (k2 >= 0 ? " and " + std::to_string(k2) : "") + " of " + std::to_string(ap.nalloc) +
                                                 " failed and the call reported success with a wrong result");
}
} // namespace

void register_sign_ops(std::map<std::string, OpFn>& reg);
void register_key_ops(std::map<std::string, OpFn>& reg);
void register_ops(std::map<std::string, OpFn>& reg) {
  register_sign_ops(reg);
  register_key_ops(reg);
  reg["hash"] = op_hash;
  reg["allocfail"] = op_allocfail;
}
} // namespace sim
