// Simulator command line. One process = one worker over a range of runs of one property on one library variant.
#include "run.hpp"
#include <chrono>
#include <cstdio>
#include <cstdlib>
#include <fstream>
#include <iostream>
#include <unistd.h>
#include <glob.h>
#include <cstring>

using namespace sim;

extern "C" __attribute__((used)) const char* __asan_default_options() {
  return "exitcode=77:detect_leaks=0:abort_on_error=0:allocator_may_return_null=1:handle_segv=1:print_summary=1";
}
extern "C" __attribute__((used)) const char* __ubsan_default_options() { return "exitcode=77:print_stacktrace=1:halt_on_error=1"; }
extern "C" __attribute__((used)) const char* __tsan_default_options() { return "exitcode=77:halt_on_error=1:report_signal_unsafe=0"; }

static std::string read_file(const std::string& p) {
  std::ifstream f(p);
  std::stringstream ss;
  ss << f.rdbuf();
  return ss.str();
}
static std::string arg(int argc, char** argv, const char* name, const char* def = "") {
  for (int i = 1; i + 1 < argc; i++)
    if (std::string(argv[i]) == name)
      return argv[i + 1];
  return def;
}
static bool flag(int argc, char** argv, const char* name) {
  for (int i = 1; i < argc; i++)
    if (std::string(argv[i]) == name)
      return true;
  return false;
}

static void apply_settings(int argc, char** argv) {
  G.variant = arg(argc, argv, "--variant", "simd");
  G.node_override = arg(argc, argv, "--node", "");
  G.hooks = (&picnic_verif_challenge_zkbpp != nullptr) && (&picnic_verif_challenge_kkw != nullptr);
  // is the cpu_supports seam reachable in this build?
  G.cpu_seam = G.variant.rfind("simd", 0) == 0 || G.variant == "kavx2" || G.variant == "kplain32" || arg(argc, argv, "--cpu-seam", "") == "1";
  if (arg(argc, argv, "--cpu-seam", "") == "0")
    G.cpu_seam = false;
  if (!arg(argc, argv, "--prop", "").empty())
    G.own_prefix = arg(argc, argv, "--prop", "") + ".";
  G.extra_randomness = flag(argc, argv, "--extra-randomness");
  std::string en = arg(argc, argv, "--enabled", "");
  if (!en.empty()) {
    G.enabled_mask = 0;
    std::istringstream is(en);
    std::string tok;
    while (std::getline(is, tok, ','))
      if (!tok.empty())
        G.enabled_mask |= 1u << std::stoi(tok);
  }
  std::string cpu = arg(argc, argv, "--op-cpu-seconds", "");
  if (!cpu.empty())
    G.op_cpu_seconds = std::stol(cpu);
  G.sanitizer = G.variant.find("asan") != std::string::npos || G.variant.find("tsan") != std::string::npos || G.variant.rfind("cfg-", 0) == 0;
  if (G.sanitizer)
    G.op_cpu_seconds *= 3;
}

static std::string plan_with_result(Plan p, const RunResult& r, const Violation& v) {
  p.clause = v.clause;
  p.detail = v.detail;
  p.loghash = hex64(r.loghash);
  p.variant = G.variant;
  if (!G.node_override.empty())
    p.meta["node"] = G.node_override;
  if (G.extra_randomness)
    p.meta["extra_randomness"] = "1";
  if (G.enabled_mask != 0x1FFE) {
    std::string s;
    for (int i = 1; i <= 12; i++)
      if ((G.enabled_mask >> i) & 1)
        s += (s.empty() ? "" : ",") + std::to_string(i);
    p.meta["enabled"] = s;
  }
  if (!r.resolved_preempt.empty()) {
    p.preempt = r.resolved_preempt;
    p.meta.erase("pct_d");
  }
  return p.text();
}

static int cmd_run(int argc, char** argv) {
  std::string prop = arg(argc, argv, "--prop"), tier = arg(argc, argv, "--tier", "quick");
  uint64_t seed = std::stoull(arg(argc, argv, "--seed", "1"));
  uint64_t runs = std::stoull(arg(argc, argv, "--runs", "0"));
  if (!runs)
    runs = default_runs(prop, tier);
  uint64_t first = std::stoull(arg(argc, argv, "--first-run", "0"));
  int workers = std::stoi(arg(argc, argv, "--workers", "1")), worker = std::stoi(arg(argc, argv, "--worker", "0"));
  std::string violdir = arg(argc, argv, "--viol-dir", "."), digests = arg(argc, argv, "--digests", "");
  std::string expect = arg(argc, argv, "--expect", ""); // digest file of the reference build to compare with
  bool hashes = flag(argc, argv, "--loghashes"), isolate = flag(argc, argv, "--isolate");
  double budget_s = std::stod(arg(argc, argv, "--time-budget", "0"));
  model::init();
  start_solo_server();
  std::map<std::string, std::string> expmap;
  if (!expect.empty()) {
    // one digest file per reference worker ("<prefix>.w<k>"): concurrent appends to one file would interleave lines
    glob_t gl;
    memset(&gl, 0, sizeof gl);
    if (glob((expect + ".w*").c_str(), 0, nullptr, &gl) == 0)
      for (size_t i = 0; i < gl.gl_pathc; i++) {
        std::ifstream f(gl.gl_pathv[i]);
        std::string line;
        while (std::getline(f, line)) {
          auto bar = line.rfind('|');
          if (bar != std::string::npos && line.size() - bar - 1 == 16)
            expmap[line.substr(0, bar)] = line.substr(bar + 1);
        }
      }
    globfree(&gl);
    if (expmap.empty()) {
      printf("MACH run=0 MACHINERY.no_reference_digests: %s.w* is empty or missing\n", expect.c_str());
      return 2;
    }
  }
  std::ofstream dg;
  if (!digests.empty())
    dg.open(digests + ".w" + std::to_string(worker), std::ios::app);
  Stats stats;
  uint64_t nruns = 0, nops = 0, nskipped = 0, perms = 0, yields = 0, libcalls = 0, nviol = 0, nmach = 0;
  long switches = 0;
  std::set<uint64_t> scheds;
  std::vector<std::string> samples;
  auto t0 = std::chrono::steady_clock::now();
  bool truncated = false;
  for (uint64_t r = first + (uint64_t)worker; r < first + runs; r += (uint64_t)workers) {
    if (budget_s > 0 && std::chrono::duration<double>(std::chrono::steady_clock::now() - t0).count() > budget_s) {
      truncated = true;
      break;
    }
    Plan p = gen_plan(prop, tier, seed, r);
    if (p.nops() == 0)
      continue;
    if (!expmap.empty()) {
      p.meta["expect"] = "1";
      for (size_t t = 0; t < p.tasks.size(); t++)
        for (size_t i = 0; i < p.tasks[t].size(); i++) {
          auto it = expmap.find(std::to_string(r) + " " + std::to_string(t) + "/" + std::to_string(i) + " " + p.tasks[t][i].op());
          if (it != expmap.end() && it->second != "skip")
            p.tasks[t][i].set("expect", it->second);
        }
    }
    if (flag(argc, argv, "--free-running"))
      p.meta["free"] = "1";
    printf("RUN %llu\n", (unsigned long long)r);
    fflush(stdout);
    RunOpts ro = opts_for(p);
    RunResult res = isolate ? run_plan_isolated(p, ro, &stats) : run_plan(p, ro, &stats);
    nruns++;
    nops += (uint64_t)res.ops;
    nskipped += (uint64_t)res.skipped;
    perms += res.perms;
    yields += res.yields;
    libcalls += (uint64_t)res.libcalls;
    switches += res.switches;
    if (p.tasks.size() > 1 && scheds.size() < 20000)
      scheds.insert(res.sched_hash);
    if (samples.size() < 2 && worker == 0) {
      Plan sp = p;
      for (auto& t : sp.tasks)
        if (t.size() > 6)
          t.resize(6);
      samples.push_back(sp.text());
    }
    if (hashes)
      printf("HASH %llu %s\n", (unsigned long long)r, hex64(res.loghash).c_str());
    if (dg.is_open())
      for (auto& d : res.digests)
        dg << r << " " << d.first << "|" << hex64(d.second) << "\n";
    if (res.machinery) {
      nmach++;
      printf("MACH run=%llu %s\n", (unsigned long long)r, res.machinery_detail.c_str());
    }
    if (!res.v.empty()) {
      nviol++;
      const Violation& v = res.v[0];
      std::string path = violdir + "/" + prop + "-" + std::to_string(seed) + "-" + std::to_string(r) + "-" + G.variant + (G.node_override.empty() ? "" : "-" + G.node_override) + ".plan";
      std::ofstream f(path);
      f << plan_with_result(p, res, v);
      f.close();
      printf("VIOL run=%llu clause=%s plan=%s detail=%s\n", (unsigned long long)r, v.clause.c_str(), path.c_str(), v.detail.c_str());
      fflush(stdout);
      if (nviol >= 3)
        break;
    }
  }
  double wall = std::chrono::duration<double>(std::chrono::steady_clock::now() - t0).count();
  // ---- statistics as one JSON line
  std::ostringstream js;
  js << "{\"worker\":" << worker << ",\"variant\":\"" << json_escape(G.variant) << "\",\"node\":\"" << json_escape(G.node_override) << "\",\"runs\":" << nruns << ",\"ops\":" << nops
     << ",\"skipped\":" << nskipped << ",\"perms\":" << perms << ",\"yields\":" << yields << ",\"libcalls\":" << libcalls << ",\"switches\":" << switches << ",\"violations\":" << nviol
     << ",\"machinery\":" << nmach << ",\"wall_s\":" << wall << ",\"truncated\":" << (truncated ? "true" : "false") << ",\"hooks\":" << (G.hooks ? "true" : "false") << ",\"counters\":{";
  bool firstc = true;
  for (auto& c : stats.c) {
    js << (firstc ? "" : ",") << "\"" << json_escape(c.first) << "\":" << c.second;
    firstc = false;
  }
  js << "},\"gauges\":{";
  firstc = true;
  for (auto& c : stats.g) {
    js << (firstc ? "" : ",") << "\"" << json_escape(c.first) << "\":" << c.second;
    firstc = false;
  }
  js << "},\"tuples\":[";
  firstc = true;
  for (auto& t : stats.tuples) {
    js << (firstc ? "" : ",") << "\"" << json_escape(t) << "\"";
    firstc = false;
  }
  js << "],\"scheds\":[";
  firstc = true;
  for (auto h : scheds) {
    js << (firstc ? "" : ",") << "\"" << hex64(h) << "\"";
    firstc = false;
  }
  js << "],\"samples\":[";
  firstc = true;
  for (auto& s : samples) {
    js << (firstc ? "" : ",") << "\"" << json_escape(s) << "\"";
    firstc = false;
  }
  js << "]}";
  printf("STATS %s\n", js.str().c_str());
  fflush(stdout);
  stop_solo_server();
  return nmach ? 2 : (nviol ? 1 : 0);
}

static void settings_from_plan(const Plan& p) {
  if (p.meta.count("extra_randomness"))
    G.extra_randomness = true;
  if (!p.prop.empty())
    G.own_prefix = p.prop + ".";
  if (p.meta.count("node") && G.node_override.empty())
    G.node_override = p.meta.at("node");
  if (p.meta.count("enabled")) {
    G.enabled_mask = 0;
    std::istringstream is(p.meta.at("enabled"));
    std::string tok;
    while (std::getline(is, tok, ','))
      if (!tok.empty())
        G.enabled_mask |= 1u << std::stoi(tok);
  }
}

static int cmd_replay(int argc, char** argv) {
  model::init();
  Plan p = Plan::parse(read_file(argv[2]));
  settings_from_plan(p);
  start_solo_server();
  RunOpts ro = opts_for(p);
  ro.collect_log = true;
  RunResult res = flag(argc, argv, "--inprocess") ? run_plan(p, ro, nullptr) : run_plan_isolated(p, ro, nullptr);
  if (flag(argc, argv, "--log"))
    for (auto& l : res.log)
      printf("LOG %s\n", l.c_str());
  printf("LOGHASH %s\n", hex64(res.loghash).c_str());
  if (res.machinery) {
    printf("MACHINERY %s\n", res.machinery_detail.c_str());
    return 2;
  }
  for (auto& v : res.v)
    printf("REPLAY-VIOLATION clause=%s at=t%d#%d detail=%s\n", v.clause.c_str(), v.task, v.idx, v.detail.c_str());
  if (res.v.empty()) {
    printf("REPLAY-OK no violation\n");
    return 0;
  }
  return 1;
}

static int cmd_shrink(int argc, char** argv) {
  model::init();
  Plan p = Plan::parse(read_file(argv[2]));
  settings_from_plan(p);
  start_solo_server();
  std::string clause = arg(argc, argv, "--clause", p.clause.c_str()), out = arg(argc, argv, "--out", "min.plan");
  int reruns = 0;
  size_t before = p.nops();
  Plan q = shrink_plan(p, clause, &reruns);
  // final confirmation run gives the minimised plan's own detail and log hash
  RunResult res = run_plan_isolated(q, opts_for(q), nullptr);
  const Violation* hit = nullptr;
  for (auto& v : res.v)
    if (v.clause == clause)
      hit = &v;
  if (!hit) {
    printf("SHRINK-LOST clause=%s\n", clause.c_str());
    return 2;
  }
  q.clause = hit->clause;
  q.detail = hit->detail;
  q.loghash = hex64(res.loghash);
  q.meta["shrunk_from_ops"] = std::to_string(before);
  q.meta["shrink_reruns"] = std::to_string(reruns);
  std::ofstream f(out);
  f << q.text();
  printf("SHRUNK ops %zu -> %zu, tasks %zu -> %zu, reruns %d, out=%s\n", before, q.nops(), p.tasks.size(), q.tasks.size(), reruns, out.c_str());
  return 0;
}

// the call history of one worker process as ONE sequential plan: runs a,b,c,... flattened in execution order. Used when
// a violation or crash does not reproduce from its own run alone, i.e. when it depends on earlier calls in the process.
static int cmd_concat(int argc, char** argv) {
  model::init();
  std::string prop = arg(argc, argv, "--prop"), tier = arg(argc, argv, "--tier", "quick"), out = arg(argc, argv, "--out", "history.plan");
  uint64_t seed = std::stoull(arg(argc, argv, "--seed", "1"));
  Plan h;
  h.prop = prop;
  h.tier = tier;
  h.seed = seed;
  h.variant = G.variant;
  h.tasks.resize(1);
  h.meta["history"] = "1";
  std::istringstream is(arg(argc, argv, "--runs"));
  std::string tok;
  uint64_t last = 0;
  while (std::getline(is, tok, ',')) {
    if (tok.empty())
      continue;
    last = std::stoull(tok);
    Plan p = gen_plan(prop, tier, seed, last);
    for (auto& kv : p.meta)
      if (kv.first != "pct_d")
        h.meta[kv.first] = kv.second;
    for (auto& t : p.tasks)
      for (auto& c : t)
        h.tasks[0].push_back(c);
  }
  h.run = last;
  h.preempt.resize(1);
  std::ofstream f(out);
  f << h.text();
  printf("HISTORY ops=%zu out=%s\n", h.nops(), out.c_str());
  return 0;
}

static int cmd_dump(int argc, char** argv) {
  model::init();
  Plan p = gen_plan(arg(argc, argv, "--prop"), arg(argc, argv, "--tier", "quick"), std::stoull(arg(argc, argv, "--seed", "1")), std::stoull(arg(argc, argv, "--run", "0")));
  fputs(p.text().c_str(), stdout);
  return 0;
}

int main(int argc, char** argv) {
  if (argc < 2) {
    fprintf(stderr, "usage: sim run|replay|shrink|dump ...\n");
    return 2;
  }
  setvbuf(stdout, nullptr, _IOLBF, 0);
  apply_settings(argc, argv);
  std::string cmd = argv[1];
  if (cmd == "run")
    return cmd_run(argc, argv);
  if (cmd == "replay")
    return cmd_replay(argc, argv);
  if (cmd == "shrink")
    return cmd_shrink(argc, argv);
  if (cmd == "dump")
    return cmd_dump(argc, argv);
  if (cmd == "concat")
    return cmd_concat(argc, argv);
  if (cmd == "runs") {
    printf("%llu\n", (unsigned long long)default_runs(arg(argc, argv, "--prop"), arg(argc, argv, "--tier", "quick")));
    return 0;
  }
  fprintf(stderr, "unknown command %s\n", cmd.c_str());
  return 2;
}
