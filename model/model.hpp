// Independent executable reference model of Picnic (spec level).
// Shares no code and no constants with /repo: SHAKE is a byte-wise sponge over a
// plain Keccak-f[1600]; LowMC constants are regenerated from the public Grain-LFSR
// self-shrinking generator; ZKB++ / KKW signers follow the specification text.
// Pinned to the 12 KAT vectors kept under /verif/model/kat (see selftest.cpp).
#pragma once
#include <array>
#include <cstdint>
#include <cstring>
#include <string>
#include <vector>

namespace model {
using bytes = std::vector<uint8_t>;

// ---------------------------------------------------------------- M1 SHAKE
struct Shake {
  uint64_t st[25];
  unsigned rate, pos;
  bool squeezing;
  explicit Shake(int security_bits /*128 or 256*/);
  void absorb(const uint8_t* p, size_t n);
  void absorb(const bytes& b) { absorb(b.data(), b.size()); }
  void absorb_u8(uint8_t v) { absorb(&v, 1); }
  void absorb_le16(unsigned v) {
    uint8_t b[2] = {(uint8_t)(v & 255), (uint8_t)(v >> 8)};
    absorb(b, 2);
  }
  void squeeze(uint8_t* out, size_t n);
  bytes squeeze(size_t n) {
    bytes o(n);
    squeeze(o.data(), n);
    return o;
  }
};
extern thread_local uint64_t perm_count; // Keccak-f permutations executed by the model (per thread)
bytes shake(int bits, const bytes& in, size_t outlen);

// ---------------------------------------------------------------- M6 parameters
struct Params {
  int id;            // parameter byte 1..12
  const char* name;  // as in the specification
  const char* lname; // lower-case file/function prefix
  int n, m, r;       // LowMC block/key bits, s-boxes, rounds
  int dig, seed, T;  // digest bytes, seed bytes, rounds
  int u, N;          // KKW: opened rounds, parties (0 for ZKB++)
  int ios, view;     // bytes of a key/block field, bytes of a view / aux / msgs
  bool unruh, kkw;
  size_t documented_max; // the value documented in the specification / README table
};
const Params* params(int id); // nullptr if id is not 1..12
inline int shake_bits(const Params& p) { return p.dig == 32 ? 128 : 256; }

// ---------------------------------------------------------------- bit vectors
struct BV {
  uint64_t w[4];
  BV() { w[0] = w[1] = w[2] = w[3] = 0; }
  bool get(int i) const { return (w[i >> 6] >> (63 - (i & 63))) & 1; }
  void set(int i, bool v) {
    uint64_t m = 1ULL << (63 - (i & 63));
    if (v)
      w[i >> 6] |= m;
    else
      w[i >> 6] &= ~m;
  }
  BV operator^(const BV& o) const {
    BV r;
    for (int i = 0; i < 4; i++)
      r.w[i] = w[i] ^ o.w[i];
    return r;
  }
  BV& operator^=(const BV& o) {
    for (int i = 0; i < 4; i++)
      w[i] ^= o.w[i];
    return *this;
  }
  bool operator==(const BV& o) const { return !memcmp(w, o.w, sizeof w); }
};
BV bv_from_bytes(const uint8_t* b, int nbits);       // bit 0 = MSB of byte 0; bits >= nbits dropped
void bv_to_bytes(const BV& v, uint8_t* out, int ios); // writes ios bytes
bytes bv_bytes(const BV& v, int ios);

// ---------------------------------------------------------------- M2 LowMC
struct LowMC {
  int n, m, r;
  std::vector<std::vector<BV>> L, Linv; // r matrices of n rows
  std::vector<BV> C;                    // r constants
  std::vector<std::vector<BV>> K;       // r+1 key matrices
  std::vector<BV> K0inv;
};
const LowMC& lowmc_instance(int n, int r); // generated on first use; call init() before threads
void init();                               // generate all six instances
BV mat_mul(const std::vector<BV>& M, const BV& v, int n);
BV lowmc_encrypt(const LowMC& lm, const BV& key, const BV& pt, std::vector<BV>* round_states = nullptr);
bytes lowmc_encrypt_bytes(const Params& p, const bytes& key, const bytes& pt);
// Same function, evaluated with byte-indexed lookup tables derived from the same regenerated matrices (for volume);
// pinned to the plain evaluation on random inputs when the tables are built.
BV lowmc_encrypt_fast(int n, int r, const BV& key, const BV& pt);

// ---------------------------------------------------------------- signers
struct Challenge {            // forced challenge (programmable random oracle)
  std::vector<uint8_t> e;     // ZKB++: T values 0..2
  std::vector<uint16_t> C, P; // KKW: u opened rounds, u hidden parties
};
struct Secret {
  std::string what; // e.g. "zkb.seed t=3 j=1"
  bytes data;
};
struct Trace {
  std::vector<Secret> secrets; // byte strings that must not occur in the signature
  Challenge challenge;         // the challenge that was used
  uint64_t perms = 0;          // model hash work
};
// sk, C, pt: ios bytes each. Returns the signature bytes. C is taken as given (not recomputed).
// `extra`: bytes the WITH_EXTRA_RANDOMNESS configuration draws from the random source and absorbs into the ZKB++ seed
// derivation after the block size (empty = the default, deterministic scheme)
bytes sign(const Params& p, const bytes& sk, const bytes& C, const bytes& pt, const bytes& msg,
           Trace* tr = nullptr, const Challenge* forced = nullptr, const bytes* extra = nullptr);

// ---------------------------------------------------------------- M5 sizes
size_t zkb_sig_size(const Params& p, const std::vector<uint8_t>& e);
size_t kkw_sig_size(const Params& p, const std::vector<uint16_t>& C, const std::vector<uint16_t>& P);
size_t true_max_sig_size(const Params& p, Challenge* argmax = nullptr); // exact maximum over all challenges
size_t true_min_sig_size(const Params& p);

// KKW tree helpers exposed for the C09 / C13 component scenarios
struct TreeShape {
  int depth, numNodes, numLeaves, first;
  std::vector<uint8_t> ex;
  explicit TreeShape(int leaves);
  bool exists(int i) const { return i < numNodes && ex[i]; }
  bool hasRight(int i) const { return 2 * i + 2 < numNodes && exists(i); }
  bool isLeaf(int i) const { return 2 * i + 1 >= numNodes; }
  bool hasSibling(int i) const { return exists(i) && (i % 2 == 0 || exists(i + 1)); }
};
std::vector<int> seed_revealed_nodes(const TreeShape& t, const std::vector<uint16_t>& hide);
std::vector<int> merkle_revealed_nodes(const TreeShape& t, const std::vector<uint16_t>& missing);

// signature layout (for field-aware wire faults): fields in order, with the number of padding bits at the
// end of the field that a canonical encoding leaves zero
struct Field {
  std::string name;
  size_t off, len;
  int padbits;
};
Challenge kkw_expand_challenge(const Params& p, const bytes& sigH);
bool zkb_parse_challenge(const Params& p, const bytes& sig, std::vector<uint8_t>& e); // false if non-canonical / short
std::vector<Field> sig_layout(const Params& p, const bytes& sig);                      // empty if not parsable

// key helpers
struct Key {
  int param;
  bytes sk, C, pt; // ios bytes each
};
Key make_key(const Params& p, const bytes& sk, const bytes& pt); // masks padding, C = LowMC(pt, sk)
bytes ser_sk(const Key& k);                                      // param || sk || C || pt
bytes ser_pk(const Key& k);                                      // param || C || pt
std::string hex(const bytes& b);
std::string hex(const uint8_t* p, size_t n);
bytes unhex(const std::string& s);
} // namespace model
