// Pins the reference model: (1) SHAKE against vectors produced by Python hashlib (file given with
// --shake <file>, lines "bits inhex outhex"), (2) all 12 KAT files kept under /verif/model/kat
// (public key = model LowMC, signature = model signer, byte for byte), (3) size model sanity.
// Exit 0 = pinned; anything else means the oracle is broken (checks then exit 2, never 1).
#include "model.hpp"
#include <cstdio>
#include <fstream>
#include <map>
#include <sstream>
using namespace model;

static std::map<std::string, std::string> read_kat(const std::string& path) {
  std::map<std::string, std::string> d;
  std::ifstream f(path);
  std::string line;
  while (std::getline(f, line)) {
    auto p = line.find(" = ");
    if (p == std::string::npos)
      continue;
    d[line.substr(0, p)] = line.substr(p + 3);
  }
  return d;
}

int main(int argc, char** argv) {
  std::string katdir = "/verif/model/kat", shakefile;
  bool quick = false;
  for (int i = 1; i < argc; i++) {
    std::string a = argv[i];
    if (a == "--kat" && i + 1 < argc)
      katdir = argv[++i];
    else if (a == "--shake" && i + 1 < argc)
      shakefile = argv[++i];
    else if (a == "--quick")
      quick = true;
  }
  int bad = 0;
  if (!shakefile.empty()) {
    std::ifstream f(shakefile);
    std::string line;
    int n = 0;
    while (std::getline(f, line)) {
      std::istringstream is(line);
      int bits;
      std::string in, out;
      is >> bits >> in >> out;
      if (in == "-")
        in = "";
      bytes o = shake(bits, unhex(in), out.size() / 2);
      if (hex(o) != out) {
        printf("SHAKE%d mismatch for input of %zu bytes\n", bits, in.size() / 2);
        bad++;
      }
      // chunked absorb/squeeze must agree with one-shot
      bytes inb = unhex(in);
      Shake s(bits);
      size_t cut = inb.size() / 3;
      s.absorb(inb.data(), cut);
      s.absorb(inb.data() + cut, inb.size() - cut);
      bytes o2(o.size());
      size_t c2 = o.size() / 2;
      s.squeeze(o2.data(), c2);
      s.squeeze(o2.data() + c2, o.size() - c2);
      if (o2 != o) {
        printf("SHAKE%d chunking mismatch\n", bits);
        bad++;
      }
      n++;
    }
    printf("shake vectors checked: %d\n", n);
    if (n == 0)
      bad++;
  }
  init();
  static const char* files[13] = {"",       "l1_fs",      "l1_ur",      "l3_fs",      "l3_ur",   "l5_fs",   "l5_ur",
                                  "picnic3_l1", "picnic3_l3", "picnic3_l5", "l1_full", "l3_full", "l5_full"};
  for (int id = 1; id <= 12; id++) {
    if (quick && !(id == 1 || id == 2 || id == 7 || id == 10))
      continue;
    const Params& p = *params(id);
    auto d = read_kat(katdir + "/kat_" + files[id] + ".txt");
    if (!d.count("sk") || !d.count("sm") || !d.count("msg")) {
      printf("%s: KAT file missing or unreadable\n", p.name);
      bad++;
      continue;
    }
    bytes skb = unhex(d["sk"]), msg = unhex(d["msg"]), sm = unhex(d["sm"]), pkb = unhex(d["pk"]);
    if ((int)skb.size() != 1 + 3 * p.ios || skb[0] != id) {
      printf("%s: unexpected sk layout\n", p.name);
      bad++;
      continue;
    }
    bytes sk(skb.begin() + 1, skb.begin() + 1 + p.ios), C(skb.begin() + 1 + p.ios, skb.begin() + 1 + 2 * p.ios),
        pt(skb.begin() + 1 + 2 * p.ios, skb.end());
    bytes Cm = lowmc_encrypt_bytes(p, sk, pt);
    Key k = make_key(p, sk, pt);
    bool okpk = (Cm == C) && ser_pk(k) == pkb && ser_sk(k) == skb;
    bytes ref(sm.begin() + 4 + msg.size(), sm.end());
    Trace tr;
    bytes sig = sign(p, sk, C, pt, msg, &tr);
    bool oksig = sig == ref;
    uint32_t len = sm[0] | (sm[1] << 8) | (sm[2] << 16) | ((uint32_t)sm[3] << 24);
    bool okframe = len == ref.size() && std::equal(msg.begin(), msg.end(), sm.begin() + 4);
    size_t mx = true_max_sig_size(p);
    size_t mysize = p.kkw ? kkw_sig_size(p, tr.challenge.C, tr.challenge.P) : zkb_sig_size(p, tr.challenge.e);
    auto lay = sig_layout(p, sig);
    bool oksize = !lay.empty() && mysize == sig.size() && mx <= p.documented_max && sig.size() <= mx && (p.kkw || mx == p.documented_max);
    printf("%-15s lowmc/pk:%s signature:%s frame:%s size-model:%s (len %zu, true max %zu, documented %zu, model perms %llu)\n",
           p.name, okpk ? "ok" : "MISMATCH", oksig ? "ok" : "MISMATCH", okframe ? "ok" : "MISMATCH",
           oksize ? "ok" : "MISMATCH", sig.size(), mx, p.documented_max, (unsigned long long)tr.perms);
    if (!okpk || !oksig || !okframe || !oksize)
      bad++;
  }
  if (bad) {
    printf("MODEL NOT PINNED: %d problem(s)\n", bad);
    return 3;
  }
  printf("model pinned\n");
  return 0;
}
