// Reference model, see model.hpp. Written from the Picnic specification (v3.0) text;
// no code or tables from /repo.
#include "model.hpp"
#include <algorithm>
#include <cassert>
#include <cstdio>
#include <cstdlib>
#include <map>
#include <mutex>
#include <stdexcept>

namespace model {

// =========================================================================== M1 SHAKE
thread_local uint64_t perm_count = 0;

static inline uint64_t rol(uint64_t x, unsigned n) { return n ? (x << n) | (x >> (64 - n)) : x; }

static void keccak_f(uint64_t A[25]) {
  // round constants and rotation offsets computed, not tabulated
  static uint64_t RC[24];
  static unsigned ROT[25];
  static bool ready = false;
  static std::once_flag once;
  std::call_once(once, [] {
    uint8_t lfsr = 1;
    for (int i = 0; i < 24; i++) {
      uint64_t c = 0;
      for (int j = 0; j < 7; j++) {
        if (lfsr & 1)
          c ^= 1ULL << ((1u << j) - 1);
        lfsr = (lfsr & 0x80) ? (uint8_t)((lfsr << 1) ^ 0x71) : (uint8_t)(lfsr << 1);
      }
      RC[i] = c;
    }
    int x = 1, y = 0;
    ROT[0] = 0;
    for (int t = 0; t < 24; t++) {
      ROT[x + 5 * y] = ((t + 1) * (t + 2) / 2) % 64;
      int nx = y, ny = (2 * x + 3 * y) % 5;
      x = nx;
      y = ny;
    }
    ready = true;
  });
  (void)ready;
  perm_count++;
  for (int rnd = 0; rnd < 24; rnd++) {
    uint64_t Cc[5], D[5], B[25];
    for (int x = 0; x < 5; x++)
      Cc[x] = A[x] ^ A[x + 5] ^ A[x + 10] ^ A[x + 15] ^ A[x + 20];
    for (int x = 0; x < 5; x++)
      D[x] = Cc[(x + 4) % 5] ^ rol(Cc[(x + 1) % 5], 1);
    for (int i = 0; i < 25; i++)
      A[i] ^= D[i % 5];
    for (int x = 0; x < 5; x++)
      for (int y = 0; y < 5; y++)
        B[y + 5 * ((2 * x + 3 * y) % 5)] = rol(A[x + 5 * y], ROT[x + 5 * y]);
    for (int y = 0; y < 5; y++)
      for (int x = 0; x < 5; x++)
        A[x + 5 * y] = B[x + 5 * y] ^ (~B[(x + 1) % 5 + 5 * y] & B[(x + 2) % 5 + 5 * y]);
    A[0] ^= RC[rnd];
  }
}

Shake::Shake(int bits) : rate(bits == 128 ? 168 : 136), pos(0), squeezing(false) {
  memset(st, 0, sizeof st);
}
void Shake::absorb(const uint8_t* p, size_t n) {
  assert(!squeezing);
  for (size_t i = 0; i < n; i++) {
    st[pos >> 3] ^= (uint64_t)p[i] << (8 * (pos & 7));
    if (++pos == rate) {
      keccak_f(st);
      pos = 0;
    }
  }
}
void Shake::squeeze(uint8_t* out, size_t n) {
  if (!squeezing) {
    st[pos >> 3] ^= (uint64_t)0x1F << (8 * (pos & 7));
    st[(rate - 1) >> 3] ^= (uint64_t)0x80 << (8 * ((rate - 1) & 7));
    keccak_f(st);
    pos = 0;
    squeezing = true;
  }
  for (size_t i = 0; i < n; i++) {
    if (pos == rate) {
      keccak_f(st);
      pos = 0;
    }
    out[i] = (uint8_t)(st[pos >> 3] >> (8 * (pos & 7)));
    pos++;
  }
}
bytes shake(int bits, const bytes& in, size_t outlen) {
  Shake s(bits);
  s.absorb(in);
  return s.squeeze(outlen);
}

// =========================================================================== parameters
static const Params PARAMS[13] = {
    {0, "invalid", "invalid", 0, 0, 0, 0, 0, 0, 0, 0, 0, 0, false, false, 0},
    {1, "Picnic_L1_FS", "picnic_l1_fs", 128, 10, 20, 32, 16, 219, 0, 0, 16, 75, false, false, 34032},
    {2, "Picnic_L1_UR", "picnic_l1_ur", 128, 10, 20, 32, 16, 219, 0, 0, 16, 75, true, false, 53961},
    {3, "Picnic_L3_FS", "picnic_l3_fs", 192, 10, 30, 48, 24, 329, 0, 0, 24, 113, false, false, 76772},
    {4, "Picnic_L3_UR", "picnic_l3_ur", 192, 10, 30, 48, 24, 329, 0, 0, 24, 113, true, false, 121845},
    {5, "Picnic_L5_FS", "picnic_l5_fs", 256, 10, 38, 64, 32, 438, 0, 0, 32, 143, false, false, 132856},
    {6, "Picnic_L5_UR", "picnic_l5_ur", 256, 10, 38, 64, 32, 438, 0, 0, 32, 143, true, false, 209506},
    {7, "Picnic3_L1", "picnic3_l1", 129, 43, 4, 32, 16, 250, 36, 16, 17, 65, false, true, 14608},
    {8, "Picnic3_L3", "picnic3_l3", 192, 64, 4, 48, 24, 419, 52, 16, 24, 96, false, true, 35024},
    {9, "Picnic3_L5", "picnic3_l5", 255, 85, 4, 64, 32, 601, 68, 16, 32, 128, false, true, 61024},
    {10, "Picnic_L1_full", "picnic_l1_full", 129, 43, 4, 32, 16, 219, 0, 0, 17, 65, false, false, 32061},
    {11, "Picnic_L3_full", "picnic_l3_full", 192, 64, 4, 48, 24, 329, 0, 0, 24, 96, false, false, 71179},
    {12, "Picnic_L5_full", "picnic_l5_full", 255, 85, 4, 64, 32, 438, 0, 0, 32, 128, false, false, 126286},
};
const Params* params(int id) { return (id >= 1 && id <= 12) ? &PARAMS[id] : nullptr; }

// =========================================================================== bit vectors
BV bv_from_bytes(const uint8_t* b, int nbits) {
  BV v;
  for (int i = 0; i < nbits; i++)
    if ((b[i >> 3] >> (7 - (i & 7))) & 1)
      v.set(i, true);
  return v;
}
void bv_to_bytes(const BV& v, uint8_t* out, int ios) {
  memset(out, 0, ios);
  for (int i = 0; i < ios * 8 && i < 256; i++)
    if (v.get(i))
      out[i >> 3] |= (uint8_t)(1u << (7 - (i & 7)));
}
bytes bv_bytes(const BV& v, int ios) {
  bytes o(ios);
  bv_to_bytes(v, o.data(), ios);
  return o;
}
static inline int parity256(const BV& a, const BV& b) {
  uint64_t x = (a.w[0] & b.w[0]) ^ (a.w[1] & b.w[1]) ^ (a.w[2] & b.w[2]) ^ (a.w[3] & b.w[3]);
  return __builtin_parityll(x);
}
BV mat_mul(const std::vector<BV>& M, const BV& v, int n) {
  BV o;
  for (int i = 0; i < n; i++)
    if (parity256(M[i], v))
      o.set(i, true);
  return o;
}

// =========================================================================== M2 LowMC
namespace {
struct Grain {
  uint8_t s[80];
  int idx = 0;
  Grain() {
    for (auto& b : s)
      b = 1;
    for (int i = 0; i < 160; i++) {
      step();
      idx = (idx + 1) % 80;
    }
  }
  void step() {
    s[idx] ^= s[(idx + 13) % 80] ^ s[(idx + 23) % 80] ^ s[(idx + 38) % 80] ^ s[(idx + 51) % 80] ^
              s[(idx + 62) % 80];
  }
  int next() {
    for (;;) {
      step();
      int choice = s[idx];
      idx = (idx + 1) % 80;
      step();
      int out = s[idx];
      idx = (idx + 1) % 80;
      if (choice)
        return out;
    }
  }
};
int rank_of(std::vector<BV> rows, int ncols) {
  int rk = 0, nr = (int)rows.size();
  for (int c = 0; c < ncols && rk < nr; c++) {
    int piv = -1;
    for (int i = rk; i < nr; i++)
      if (rows[i].get(c)) {
        piv = i;
        break;
      }
    if (piv < 0)
      continue;
    std::swap(rows[rk], rows[piv]);
    for (int i = 0; i < nr; i++)
      if (i != rk && rows[i].get(c))
        rows[i] ^= rows[rk];
    rk++;
  }
  return rk;
}
std::vector<BV> gen_matrix(Grain& g, int nrows, int ncols) {
  for (;;) {
    std::vector<BV> M(nrows);
    for (int i = 0; i < nrows; i++)
      for (int j = 0; j < ncols; j++)
        if (g.next())
          M[i].set(j, true);
    if (rank_of(M, ncols) >= std::min(nrows, ncols))
      return M;
  }
}
std::vector<BV> invert(const std::vector<BV>& M, int n) {
  std::vector<BV> A = M, I(n);
  for (int i = 0; i < n; i++)
    I[i].set(i, true);
  for (int c = 0; c < n; c++) {
    int piv = -1;
    for (int i = c; i < n; i++)
      if (A[i].get(c)) {
        piv = i;
        break;
      }
    if (piv < 0)
      throw std::runtime_error("model: singular matrix");
    std::swap(A[c], A[piv]);
    std::swap(I[c], I[piv]);
    for (int i = 0; i < n; i++)
      if (i != c && A[i].get(c)) {
        A[i] ^= A[c];
        I[i] ^= I[c];
      }
  }
  return I;
}
std::map<std::pair<int, int>, LowMC>& cache() {
  static std::map<std::pair<int, int>, LowMC> c;
  return c;
}
std::mutex cache_mu;
} // namespace

const LowMC& lowmc_instance(int n, int r) {
  std::lock_guard<std::mutex> lk(cache_mu);
  auto key = std::make_pair(n, r);
  auto it = cache().find(key);
  if (it != cache().end())
    return it->second;
  LowMC lm;
  lm.n = n;
  lm.r = r;
  lm.m = (r == 4) ? n / 3 : 10;
  Grain g;
  for (int i = 0; i < r; i++)
    lm.L.push_back(gen_matrix(g, n, n));
  for (int i = 0; i < r; i++) {
    BV c;
    for (int j = 0; j < n; j++)
      if (g.next())
        c.set(j, true);
    lm.C.push_back(c);
  }
  for (int i = 0; i <= r; i++)
    lm.K.push_back(gen_matrix(g, n, n));
  for (int i = 0; i < r; i++)
    lm.Linv.push_back(invert(lm.L[i], n));
  lm.K0inv = invert(lm.K[0], n);
  return cache().emplace(key, std::move(lm)).first->second;
}
void init() {
  lowmc_instance(128, 20);
  lowmc_instance(192, 30);
  lowmc_instance(256, 38);
  lowmc_instance(129, 4);
  lowmc_instance(192, 4);
  lowmc_instance(255, 4);
}
static const LowMC& lm_for(const Params& p) { return lowmc_instance(p.n, p.r); }

static BV sbox_layer(const BV& s, int m) {
  BV o = s;
  for (int i = 0; i < m; i++) {
    bool a = s.get(3 * i + 2), b = s.get(3 * i + 1), c = s.get(3 * i);
    o.set(3 * i + 2, a ^ (b & c));
    o.set(3 * i + 1, a ^ b ^ (a & c));
    o.set(3 * i, a ^ b ^ c ^ (a & b));
  }
  return o;
}
BV lowmc_encrypt(const LowMC& lm, const BV& key, const BV& pt, std::vector<BV>* states) {
  BV s = pt ^ mat_mul(lm.K[0], key, lm.n);
  for (int i = 0; i < lm.r; i++) {
    if (states)
      states->push_back(s);
    s = sbox_layer(s, lm.m);
    s = mat_mul(lm.L[i], s, lm.n);
    s ^= lm.C[i];
    s ^= mat_mul(lm.K[i + 1], key, lm.n);
  }
  return s;
}
namespace {
struct FastMat {
  std::vector<BV> tab; // tab[j * 16 + v] = M * (vector whose nibble j is v); nibble tables stay cache resident
  int nnib = 0;
  void build(const std::vector<BV>& M, int n) {
    nnib = (n + 3) / 4;
    std::vector<BV> col(4 * nnib);
    for (int i = 0; i < n; i++)
      for (int c = 0; c < n; c++)
        if (M[i].get(c))
          col[c].set(i, true);
    tab.assign((size_t)nnib * 16, BV());
    for (int j = 0; j < nnib; j++)
      for (int v = 1; v < 16; v++) {
        int low = v & -v, bit = __builtin_ctz(v);
        tab[(size_t)j * 16 + v] = tab[(size_t)j * 16 + (v ^ low)] ^ col[4 * j + (3 - bit)];
      }
  }
  BV mul(const BV& x) const {
    BV o;
    for (int j = 0; j < nnib; j++) {
      unsigned v = (unsigned)((x.w[j >> 4] >> (60 - 4 * (j & 15))) & 0xf);
      const BV& t = tab[(size_t)j * 16 + v];
      o.w[0] ^= t.w[0];
      o.w[1] ^= t.w[1];
      o.w[2] ^= t.w[2];
      o.w[3] ^= t.w[3];
    }
    return o;
  }
};
struct FastLowMC {
  std::vector<FastMat> L, K;
};
std::map<std::pair<int, int>, FastLowMC>& fcache() {
  static std::map<std::pair<int, int>, FastLowMC> c;
  return c;
}
std::mutex fcache_mu;
} // namespace
BV lowmc_encrypt_fast(int n, int r, const BV& key, const BV& pt) {
  const LowMC& lm = lowmc_instance(n, r);
  FastLowMC* f;
  {
    std::lock_guard<std::mutex> lk(fcache_mu);
    auto k = std::make_pair(n, r);
    auto it = fcache().find(k);
    if (it == fcache().end()) {
      FastLowMC nf;
      nf.L.resize(r);
      nf.K.resize(r + 1);
      for (int i = 0; i < r; i++)
        nf.L[i].build(lm.L[i], n);
      for (int i = 0; i <= r; i++)
        nf.K[i].build(lm.K[i], n);
      it = fcache().emplace(k, std::move(nf)).first;
      // pin the tables to the plain evaluation
      uint64_t sd = 0x1234567 + n * 1000 + r;
      for (int t = 0; t < 64; t++) {
        BV a, b;
        for (int i = 0; i < n; i++) {
          sd = sd * 6364136223846793005ULL + 1442695040888963407ULL;
          a.set(i, (sd >> 62) & 1);
          b.set(i, (sd >> 61) & 1);
        }
        BV s1 = lowmc_encrypt(lm, a, b);
        const FastLowMC& ff = it->second;
        BV s2 = b ^ ff.K[0].mul(a);
        for (int i = 0; i < r; i++) {
          s2 = sbox_layer(s2, lm.m);
          s2 = ff.L[i].mul(s2) ^ lm.C[i] ^ ff.K[i + 1].mul(a);
        }
        if (!(s1 == s2))
          throw std::runtime_error("model: table-driven LowMC disagrees with the plain evaluation");
      }
    }
    f = &it->second;
  }
  BV s = pt ^ f->K[0].mul(key);
  for (int i = 0; i < r; i++) {
    s = sbox_layer(s, lm.m);
    s = f->L[i].mul(s) ^ lm.C[i] ^ f->K[i + 1].mul(key);
  }
  return s;
}
bytes lowmc_encrypt_bytes(const Params& p, const bytes& key, const bytes& pt) {
  const LowMC& lm = lm_for(p);
  BV k = bv_from_bytes(key.data(), p.n), x = bv_from_bytes(pt.data(), p.n);
  return bv_bytes(lowmc_encrypt(lm, k, x), p.ios);
}

// =========================================================================== helpers
static inline bool getbit(const uint8_t* b, size_t i) { return (b[i >> 3] >> (7 - (i & 7))) & 1; }
static inline void setbit(uint8_t* b, size_t i, bool v) {
  uint8_t m = (uint8_t)(1u << (7 - (i & 7)));
  if (v)
    b[i >> 3] |= m;
  else
    b[i >> 3] &= (uint8_t)~m;
}
static void put(bytes& o, const bytes& b) { o.insert(o.end(), b.begin(), b.end()); }
static int clog2(int x) {
  int b = 0;
  while ((1 << b) < x)
    b++;
  return b;
}
std::string hex(const uint8_t* p, size_t n) {
  static const char* d = "0123456789abcdef";
  std::string s;
  s.reserve(2 * n);
  for (size_t i = 0; i < n; i++) {
    s.push_back(d[p[i] >> 4]);
    s.push_back(d[p[i] & 15]);
  }
  return s;
}
std::string hex(const bytes& b) { return hex(b.data(), b.size()); }
bytes unhex(const std::string& s) {
  auto v = [](char c) -> int {
    if (c >= '0' && c <= '9')
      return c - '0';
    if (c >= 'a' && c <= 'f')
      return c - 'a' + 10;
    if (c >= 'A' && c <= 'F')
      return c - 'A' + 10;
    return 0;
  };
  bytes o;
  for (size_t i = 0; i + 1 < s.size(); i += 2)
    o.push_back((uint8_t)(v(s[i]) * 16 + v(s[i + 1])));
  return o;
}

Key make_key(const Params& p, const bytes& sk_in, const bytes& pt_in) {
  Key k;
  k.param = p.id;
  k.sk = sk_in;
  k.pt = pt_in;
  k.sk.resize(p.ios);
  k.pt.resize(p.ios);
  uint8_t mask = (uint8_t)(0xff << (8 * p.ios - p.n));
  k.sk[p.ios - 1] &= mask;
  k.pt[p.ios - 1] &= mask;
  k.C = lowmc_encrypt_bytes(p, k.sk, k.pt);
  return k;
}
bytes ser_sk(const Key& k) {
  bytes o;
  o.push_back((uint8_t)k.param);
  put(o, k.sk);
  put(o, k.C);
  put(o, k.pt);
  return o;
}
bytes ser_pk(const Key& k) {
  bytes o;
  o.push_back((uint8_t)k.param);
  put(o, k.C);
  put(o, k.pt);
  return o;
}

// =========================================================================== M3 ZKB++
namespace {
struct ZRound {
  bytes seed[3], ish[3], view[3], osh[3], com[3], G[3];
};

void zkb_mpc(const Params& p, const LowMC& lm, const BV key[3], const BV& pt, const bytes tape[3],
             bytes view[3], BV out[3]) {
  const int n = p.n;
  BV st[3];
  for (int j = 0; j < 3; j++)
    st[j] = mat_mul(lm.K[0], key[j], n);
  st[0] ^= pt;
  for (int j = 0; j < 3; j++)
    view[j].assign(p.view, 0);
  size_t pos = 0;
  for (int r = 0; r < p.r; r++) {
    BV rk[3];
    for (int j = 0; j < 3; j++)
      rk[j] = mat_mul(lm.K[r + 1], key[j], n);
    for (int s = 0; s < p.m; s++) {
      int i = 3 * s;
      bool a[3], b[3], c[3];
      for (int j = 0; j < 3; j++) {
        a[j] = st[j].get(i + 2);
        b[j] = st[j].get(i + 1);
        c[j] = st[j].get(i);
      }
      bool ab[3], bc[3], ca[3];
      auto AND = [&](const bool x[3], const bool y[3], bool o[3]) {
        bool rr[3];
        for (int j = 0; j < 3; j++)
          rr[j] = getbit(tape[j].data(), pos);
        for (int j = 0; j < 3; j++) {
          int k = (j + 1) % 3;
          o[j] = (x[j] & y[k]) ^ (x[k] & y[j]) ^ (x[j] & y[j]) ^ rr[j] ^ rr[k];
          if (o[j])
            setbit(view[j].data(), pos, true);
        }
        pos++;
      };
      AND(a, b, ab);
      AND(b, c, bc);
      AND(c, a, ca);
      for (int j = 0; j < 3; j++) {
        st[j].set(i + 2, a[j] ^ bc[j]);
        st[j].set(i + 1, a[j] ^ b[j] ^ ca[j]);
        st[j].set(i, a[j] ^ b[j] ^ c[j] ^ ab[j]);
      }
    }
    for (int j = 0; j < 3; j++)
      st[j] = mat_mul(lm.L[r], st[j], n);
    st[0] ^= lm.C[r];
    for (int j = 0; j < 3; j++)
      st[j] ^= rk[j];
  }
  for (int j = 0; j < 3; j++)
    out[j] = st[j];
}

bytes zkb_sign(const Params& p, const bytes& sk, const bytes& Cc, const bytes& pt, const bytes& msg,
               Trace* tr, const Challenge* forced, const bytes* extra) {
  const int hb = shake_bits(p), T = p.T;
  const LowMC& lm = lm_for(p);
  bytes kdf;
  {
    Shake s(hb);
    s.absorb(sk);
    s.absorb(msg);
    s.absorb(Cc);
    s.absorb(pt);
    s.absorb_le16(p.n);
    if (extra && !extra->empty())
      s.absorb(*extra);
    kdf = s.squeeze((size_t)T * 3 * p.seed + 32);
  }
  bytes salt(kdf.end() - 32, kdf.end());
  BV key = bv_from_bytes(sk.data(), p.n), pti = bv_from_bytes(pt.data(), p.n);
  uint8_t padmask = (uint8_t)(0xff << (8 * p.ios - p.n));
  std::vector<ZRound> R(T);
  for (int t = 0; t < T; t++) {
    ZRound& r = R[t];
    bytes tape[3];
    for (int j = 0; j < 3; j++) {
      r.seed[j].assign(kdf.begin() + (size_t)(t * 3 + j) * p.seed, kdf.begin() + (size_t)(t * 3 + j + 1) * p.seed);
      Shake h2(hb);
      h2.absorb_u8(2);
      h2.absorb(r.seed[j]);
      bytes d = h2.squeeze(p.dig);
      size_t outlen = p.view + (j < 2 ? p.ios : 0);
      Shake s(hb);
      s.absorb(d);
      s.absorb(salt);
      s.absorb_le16(t);
      s.absorb_le16(j);
      s.absorb_le16((unsigned)outlen);
      bytes o = s.squeeze(outlen);
      if (j < 2) {
        r.ish[j].assign(o.begin(), o.begin() + p.ios);
        r.ish[j][p.ios - 1] &= padmask;
        tape[j].assign(o.begin() + p.ios, o.end());
      } else
        tape[j] = o;
    }
    BV k[3];
    k[0] = bv_from_bytes(r.ish[0].data(), p.n);
    k[1] = bv_from_bytes(r.ish[1].data(), p.n);
    k[2] = key ^ k[0] ^ k[1];
    r.ish[2] = bv_bytes(k[2], p.ios);
    BV outs[3];
    zkb_mpc(p, lm, k, pti, tape, r.view, outs);
    for (int j = 0; j < 3; j++) {
      r.osh[j] = bv_bytes(outs[j], p.ios);
      Shake h4(hb);
      h4.absorb_u8(4);
      h4.absorb(r.seed[j]);
      bytes d = h4.squeeze(p.dig);
      Shake c(hb);
      c.absorb_u8(0);
      c.absorb(d);
      c.absorb(r.ish[j]);
      c.absorb(r.view[j]);
      c.absorb(r.osh[j]);
      r.com[j] = c.squeeze(p.dig);
      if (p.unruh) {
        Shake h5(hb);
        h5.absorb_u8(5);
        h5.absorb(r.seed[j]);
        bytes d5 = h5.squeeze(p.dig);
        size_t outlen = p.view + p.ios + (j == 2 ? p.ios : 0);
        Shake g(hb);
        g.absorb(d5);
        if (j == 2)
          g.absorb(r.ish[j]);
        g.absorb(r.view[j]);
        g.absorb_le16((unsigned)outlen);
        r.G[j] = g.squeeze(outlen);
      }
    }
  }
  // challenge
  std::vector<uint8_t> ch;
  {
    Shake s(hb);
    s.absorb_u8(1);
    for (auto& r : R)
      for (int j = 0; j < 3; j++)
        s.absorb(r.osh[j]);
    for (auto& r : R)
      for (int j = 0; j < 3; j++)
        s.absorb(r.com[j]);
    if (p.unruh)
      for (auto& r : R)
        for (int j = 0; j < 3; j++)
          s.absorb(r.G[j]);
    s.absorb(Cc);
    s.absorb(pt);
    s.absorb(salt);
    s.absorb(msg);
    bytes h = s.squeeze(p.dig);
    while ((int)ch.size() < T) {
      for (uint8_t byte : h)
        for (int sh = 6; sh >= 0; sh -= 2) {
          int v = (byte >> sh) & 3;
          if (v < 3 && (int)ch.size() < T)
            ch.push_back((uint8_t)v);
        }
      if ((int)ch.size() < T) {
        Shake s2(hb);
        s2.absorb_u8(1);
        s2.absorb(h);
        h = s2.squeeze(p.dig);
      }
    }
  }
  if (forced && !forced->e.empty()) {
    ch = forced->e;
    ch.resize(T, 0);
  }
  bytes out((2 * T + 7) / 8, 0);
  for (int t = 0; t < T; t++) {
    setbit(out.data(), 2 * t, ch[t] & 1);
    setbit(out.data(), 2 * t + 1, (ch[t] >> 1) & 1);
  }
  put(out, salt);
  for (int t = 0; t < T; t++) {
    int e = ch[t];
    const ZRound& r = R[t];
    put(out, r.com[(e + 2) % 3]);
    if (p.unruh)
      put(out, r.G[(e + 2) % 3]);
    put(out, r.view[(e + 1) % 3]);
    put(out, r.seed[e]);
    put(out, r.seed[(e + 1) % 3]);
    if (e != 0)
      put(out, r.ish[2]);
    if (tr) {
      int hid = (e + 2) % 3;
      tr->secrets.push_back({"zkb.hidden_seed t=" + std::to_string(t) + " party=" + std::to_string(hid), r.seed[hid]});
      if (hid == 2)
        tr->secrets.push_back({"zkb.hidden_third_input_share t=" + std::to_string(t), r.ish[2]});
      // the unopened party's view (its AND-gate outputs): 16 bytes from the middle are pseudorandom and enough to recognise it
      if (r.view[hid].size() >= 32)
        tr->secrets.push_back({"zkb.hidden_view t=" + std::to_string(t) + " party=" + std::to_string(hid), bytes(r.view[hid].begin() + 8, r.view[hid].begin() + 32)});
    }
  }
  if (tr) {
    tr->challenge.e = ch;
    tr->secrets.push_back({"secret_key", sk});
  }
  return out;
}
} // namespace

// =========================================================================== M4 KKW
TreeShape::TreeShape(int leaves) {
  depth = clog2(leaves) + 1;
  numNodes = ((1 << depth) - 1) - ((1 << (depth - 1)) - leaves);
  numLeaves = leaves;
  first = numNodes - leaves;
  ex.assign(numNodes, 0);
  for (int i = first; i < numNodes; i++)
    ex[i] = 1;
  for (int i = first - 1; i >= 0; i--)
    ex[i] = (2 * i + 1 < numNodes && ex[2 * i + 1]) || (2 * i + 2 < numNodes && ex[2 * i + 2]);
}
static inline int parent(int i) { return ((i + 1) >> 1) - 1; }

std::vector<int> seed_revealed_nodes(const TreeShape& tr, const std::vector<uint16_t>& hide) {
  int pathLen = tr.depth - 1;
  size_t h = hide.size();
  std::vector<std::vector<int>> paths(pathLen, std::vector<int>(h, 0));
  for (size_t i = 0; i < h; i++) {
    int node = hide[i] + tr.first, pos = 0;
    paths[pos++][i] = node;
    node = parent(node);
    while (node != 0) {
      paths[pos++][i] = node;
      node = parent(node);
    }
  }
  std::vector<int> rev;
  for (int d = 0; d < pathLen; d++)
    for (size_t i = 0; i < h; i++) {
      int node = paths[d][i];
      if (!tr.hasSibling(node))
        continue;
      int sib = (node % 2 == 1) ? node + 1 : node - 1;
      if (std::find(paths[d].begin(), paths[d].end(), sib) != paths[d].end())
        continue;
      while (!tr.hasRight(sib) && !tr.isLeaf(sib))
        sib = 2 * sib + 1;
      if (std::find(rev.begin(), rev.end(), sib) == rev.end())
        rev.push_back(sib);
    }
  return rev;
}
std::vector<int> merkle_revealed_nodes(const TreeShape& tr, const std::vector<uint16_t>& missing) {
  std::vector<uint8_t> miss(tr.numNodes, 0);
  for (auto m : missing)
    miss[tr.first + m] = 1;
  for (int i = parent(tr.numNodes - 1); i > 0; i--) {
    if (!tr.exists(i))
      continue;
    if (tr.exists(2 * i + 2)) {
      if (miss[2 * i + 1] && miss[2 * i + 2])
        miss[i] = 1;
    } else if (miss[2 * i + 1])
      miss[i] = 1;
  }
  std::vector<int> rev;
  for (auto m : missing) {
    int node = m + tr.first;
    for (;;) {
      if (!miss[parent(node)]) {
        if (std::find(rev.begin(), rev.end(), node) == rev.end())
          rev.push_back(node);
        break;
      }
      node = parent(node);
      if (node == 0)
        break;
    }
  }
  return rev;
}

namespace {
struct SeedTree {
  TreeShape sh;
  std::vector<bytes> data;
  std::vector<uint8_t> have;
  SeedTree(int leaves) : sh(leaves), data(sh.numNodes), have(sh.numNodes, 0) {}
};
SeedTree gen_seed_tree(const Params& p, int leaves, const bytes& root, const bytes& salt, int rep) {
  SeedTree t(leaves);
  t.data[0] = root;
  t.have[0] = 1;
  int last = parent(t.sh.numNodes - 1);
  for (int i = 0; i <= last; i++) {
    if (!t.have[i])
      continue;
    Shake s(shake_bits(p));
    s.absorb_u8(1);
    s.absorb(t.data[i]);
    s.absorb(salt);
    s.absorb_le16(rep);
    s.absorb_le16(i);
    bytes d = s.squeeze(2 * p.seed);
    if (!t.have[2 * i + 1]) {
      t.data[2 * i + 1].assign(d.begin(), d.begin() + p.seed);
      t.have[2 * i + 1] = 1;
    }
    if (t.sh.exists(2 * i + 2) && !t.have[2 * i + 2]) {
      t.data[2 * i + 2].assign(d.begin() + p.seed, d.end());
      t.have[2 * i + 2] = 1;
    }
  }
  return t;
}
SeedTree build_merkle(const Params& p, const std::vector<bytes>& leaves, const bytes& salt) {
  SeedTree t((int)leaves.size());
  for (size_t i = 0; i < leaves.size(); i++) {
    t.data[t.sh.first + i] = leaves[i];
    t.have[t.sh.first + i] = 1;
  }
  for (int i = t.sh.numNodes - 1; i > 0; i--) {
    if (!t.sh.exists(i))
      continue;
    int par = parent(i);
    if (t.have[par])
      continue;
    if (!t.have[2 * par + 1])
      continue;
    if (t.sh.exists(2 * par + 2) && !t.have[2 * par + 2])
      continue;
    Shake s(shake_bits(p));
    s.absorb_u8(3);
    s.absorb(t.data[2 * par + 1]);
    if (t.sh.hasRight(par)) {
      if (t.have[2 * par + 2])
        s.absorb(t.data[2 * par + 2]);
      else {
        bytes z(p.dig, 0); // reference quirk: an in-range but non-existent right child hashes as zeros
        s.absorb(z);
      }
    }
    s.absorb(salt);
    s.absorb_le16(par);
    t.data[par] = s.squeeze(p.dig);
    t.have[par] = 1;
  }
  return t;
}
std::vector<unsigned> chunks(const bytes& h, int bits) {
  size_t total = h.size() * 8 / bits;
  std::vector<unsigned> out;
  for (size_t i = 0; i < total; i++) {
    unsigned v = 0;
    for (int j = 0; j < bits; j++)
      v += (unsigned)getbit(h.data(), i * bits + j) << j;
    out.push_back(v);
  }
  return out;
}
struct KRound {
  SeedTree st;
  std::vector<bytes> seeds, coms, msgs;
  bytes aux, inp, Ch, Cv;
  KRound() : st(16) {}
};

} // namespace
Challenge kkw_expand_challenge(const Params& p, const bytes& sigH) {
  const int T = p.T, N = p.N, hb = shake_bits(p);
  bytes h = sigH;
  Challenge out;
  std::vector<uint16_t>&Cl = out.C, &Pl = out.P;
  int bC = clog2(T), bP = clog2(N);
  auto rehash = [&] {
    Shake s(hb);
    s.absorb_u8(1);
    s.absorb(h);
    h = s.squeeze(p.dig);
  };
  while ((int)Cl.size() < p.u) {
    for (unsigned ch : chunks(h, bC)) {
      if ((int)ch < T && std::find(Cl.begin(), Cl.end(), (uint16_t)ch) == Cl.end())
        Cl.push_back((uint16_t)ch);
      if ((int)Cl.size() == p.u)
        break;
    }
    rehash();
  }
  while ((int)Pl.size() < p.u) {
    for (unsigned ch : chunks(h, bP)) {
      if ((int)ch < N)
        Pl.push_back((uint16_t)ch);
      if ((int)Pl.size() == p.u)
        break;
    }
    rehash();
  }
  return out;
}
namespace {
bytes kkw_sign(const Params& p, const bytes& sk, const bytes& Cc, const bytes& pt, const bytes& msg,
               Trace* tr, const Challenge* forced) {
  const int n = p.n, T = p.T, N = p.N, hb = shake_bits(p);
  const LowMC& lm = lm_for(p);
  bytes sr;
  {
    Shake s(hb);
    s.absorb(sk);
    s.absorb(msg);
    s.absorb(Cc);
    s.absorb(pt);
    s.absorb_le16(n);
    sr = s.squeeze(32 + p.seed);
  }
  bytes salt(sr.begin(), sr.begin() + 32), root(sr.begin() + 32, sr.end());
  SeedTree itree = gen_seed_tree(p, T, root, salt, 0);
  BV key = bv_from_bytes(sk.data(), n), pti = bv_from_bytes(pt.data(), n);
  const size_t tapeLen = 2 * (size_t)p.view;
  std::vector<KRound> R(T);
  for (int t = 0; t < T; t++) {
    KRound& r = R[t];
    r.st = gen_seed_tree(p, N, itree.data[itree.sh.first + t], salt, t);
    std::vector<bytes> tapes(N);
    for (int j = 0; j < N; j++) {
      r.seeds.push_back(r.st.data[r.st.sh.first + j]);
      Shake s(hb);
      s.absorb(r.seeds[j]);
      s.absorb(salt);
      s.absorb_le16(t);
      s.absorb_le16(j);
      tapes[j] = s.squeeze(tapeLen);
    }
    bytes par(tapeLen, 0);
    for (int j = 0; j < N; j++)
      for (size_t k = 0; k < tapeLen; k++)
        par[k] ^= tapes[j][k];
    auto parbits = [&](size_t pos) {
      BV x;
      for (int k = 0; k < n; k++)
        if (getbit(par.data(), pos + k))
          x.set(k, true);
      return x;
    };
    BV key0 = parbits(0);
    BV kmask = mat_mul(lm.K0inv, key0, n);
    r.aux.assign(p.view, 0);
    BV x;
    for (int rr = p.r; rr > 0; rr--) {
      x ^= mat_mul(lm.K[rr], kmask, n);
      BV y = mat_mul(lm.Linv[rr - 1], x, n);
      x = (rr == 1) ? key0 : parbits(2 * (size_t)n * (rr - 1));
      size_t pos = 2 * (size_t)n * (rr - 1) + n, apos = (size_t)n * (rr - 1);
      for (int s = 0; s < p.m; s++) {
        int i = 3 * s;
        bool a = x.get(i + 2), b = x.get(i + 1), c = x.get(i);
        bool d = y.get(i + 2), e = y.get(i + 1), f = y.get(i);
        bool ma[3] = {a, b, c}, mb[3] = {b, c, a};
        bool fresh[3] = {(bool)(f ^ a ^ b ^ c), (bool)(d ^ a), (bool)(e ^ a ^ b)};
        for (int g = 0; g < 3; g++) {
          bool helper = false;
          for (int j = 0; j < N - 1; j++)
            helper ^= getbit(tapes[j].data(), pos);
          bool auxbit = (ma[g] & mb[g]) ^ helper ^ fresh[g];
          setbit(tapes[N - 1].data(), pos, auxbit);
          setbit(r.aux.data(), apos, auxbit);
          pos++;
          apos++;
        }
      }
    }
    for (int j = 0; j < N; j++) {
      Shake s(hb);
      s.absorb(r.seeds[j]);
      if (j == N - 1)
        s.absorb(r.aux);
      s.absorb(salt);
      s.absorb_le16(t);
      s.absorb_le16(j);
      r.coms.push_back(s.squeeze(p.dig));
    }
    // online phase
    BV masked = key ^ kmask;
    r.inp = bv_bytes(masked, p.ios);
    r.msgs.assign(N, bytes(p.view, 0));
    BV state = mat_mul(lm.K[0], masked, n) ^ pti;
    size_t tpos = 0, mpos = 0;
    for (int rr = 0; rr < p.r; rr++) {
      BV ns = state;
      for (int s = 0; s < p.m; s++) {
        int i = 3 * s;
        bool a = state.get(i + 2), b = state.get(i + 1), c = state.get(i);
        bool xv[3] = {a, b, c}, yv[3] = {b, c, a};
        int xo[3] = {i + 2, i + 1, i}, yo[3] = {i + 1, i, i + 2};
        bool res[3];
        for (int g = 0; g < 3; g++) {
          bool tot = false;
          for (int j = 0; j < N; j++) {
            const uint8_t* tp = tapes[j].data();
            bool mx = getbit(tp, tpos + xo[g]), my = getbit(tp, tpos + yo[g]), hl = getbit(tp, tpos + n + i + g);
            bool sh = (xv[g] & my) ^ (yv[g] & mx) ^ hl;
            if (sh)
              setbit(r.msgs[j].data(), mpos + i + g, true);
            tot ^= sh;
          }
          res[g] = tot ^ (xv[g] & yv[g]);
        }
        bool ab = res[0], bc = res[1], ca = res[2];
        ns.set(i + 2, a ^ bc);
        ns.set(i + 1, a ^ b ^ ca);
        ns.set(i, a ^ b ^ c ^ ab);
      }
      state = ns;
      tpos += 2 * n;
      mpos += n;
      state = mat_mul(lm.L[rr], state, n) ^ lm.C[rr] ^ mat_mul(lm.K[rr + 1], masked, n);
    }
    // (no assertion that state == C: the model signs whatever key it is given; callers decide)
    {
      Shake s(hb);
      for (auto& c : r.coms)
        s.absorb(c);
      r.Ch = s.squeeze(p.dig);
      Shake v(hb);
      v.absorb(r.inp);
      for (auto& m : r.msgs)
        v.absorb(m);
      r.Cv = v.squeeze(p.dig);
    }
  }
  std::vector<bytes> cvs;
  for (auto& r : R)
    cvs.push_back(r.Cv);
  SeedTree mt = build_merkle(p, cvs, salt);
  bytes h;
  {
    Shake s(hb);
    for (auto& r : R)
      s.absorb(r.Ch);
    s.absorb(mt.data[0]);
    s.absorb(salt);
    s.absorb(Cc);
    s.absorb(pt);
    s.absorb(msg);
    h = s.squeeze(p.dig);
  }
  bytes sigh = h;
  Challenge derived = kkw_expand_challenge(p, h);
  std::vector<uint16_t> Cl = derived.C, Pl = derived.P;
  if (forced && !forced->C.empty()) {
    Cl = forced->C;
    Pl = forced->P;
  }
  bytes out = sigh;
  put(out, salt);
  for (int nd : seed_revealed_nodes(itree.sh, Cl))
    put(out, itree.data[nd]);
  std::vector<uint16_t> missing;
  for (int t = 0; t < T; t++)
    if (std::find(Cl.begin(), Cl.end(), (uint16_t)t) == Cl.end())
      missing.push_back((uint16_t)t);
  for (int nd : merkle_revealed_nodes(mt.sh, missing))
    put(out, mt.data[nd]);
  for (int t = 0; t < T; t++) {
    auto it = std::find(Cl.begin(), Cl.end(), (uint16_t)t);
    if (it == Cl.end())
      continue;
    int P = Pl[it - Cl.begin()];
    KRound& r = R[t];
    for (int nd : seed_revealed_nodes(r.st.sh, {(uint16_t)P}))
      put(out, r.st.data[nd]);
    if (P != N - 1)
      put(out, r.aux);
    put(out, r.inp);
    put(out, r.msgs[P]);
    put(out, r.coms[P]);
    if (tr) {
      // hidden leaf and all its ancestors in the party tree (the root is the iSeed leaf of round t)
      int node = r.st.sh.first + P;
      while (true) {
        tr->secrets.push_back({"kkw.party_tree t=" + std::to_string(t) + " node=" + std::to_string(node) + " P=" + std::to_string(P),
                               r.st.data[node]});
        if (node == 0)
          break;
        node = parent(node);
      }
    }
  }
  if (tr) {
    // ancestors of hidden iSeed leaves
    std::vector<uint8_t> mark(itree.sh.numNodes, 0);
    for (auto t : Cl) {
      int node = itree.sh.first + t;
      while (true) {
        mark[node] = 1;
        if (node == 0)
          break;
        node = parent(node);
      }
    }
    for (int i = 0; i < itree.sh.numNodes; i++)
      if (mark[i] && i < itree.sh.first && itree.have[i])
        tr->secrets.push_back({"kkw.iseed_tree node=" + std::to_string(i), itree.data[i]});
    tr->secrets.push_back({"secret_key", sk});
    tr->challenge.C = Cl;
    tr->challenge.P = Pl;
  }
  return out;
}
} // namespace

bytes sign(const Params& p, const bytes& sk, const bytes& C, const bytes& pt, const bytes& msg, Trace* tr,
           const Challenge* forced, const bytes* extra) {
  uint64_t before = perm_count;
  bytes out = p.kkw ? kkw_sign(p, sk, C, pt, msg, tr, forced) : zkb_sign(p, sk, C, pt, msg, tr, forced, extra);
  if (tr)
    tr->perms = perm_count - before;
  return out;
}

// =========================================================================== layouts
bool zkb_parse_challenge(const Params& p, const bytes& sig, std::vector<uint8_t>& e) {
  size_t cb = (2 * p.T + 7) / 8;
  if (sig.size() < cb)
    return false;
  e.assign(p.T, 0);
  for (int t = 0; t < p.T; t++) {
    int v = (int)getbit(sig.data(), 2 * t) | ((int)getbit(sig.data(), 2 * t + 1) << 1);
    if (v == 3)
      return false;
    e[t] = (uint8_t)v;
  }
  return true;
}
std::vector<Field> sig_layout(const Params& p, const bytes& sig) {
  std::vector<Field> f;
  size_t off = 0;
  auto add = [&](const std::string& name, size_t len, int pad) {
    f.push_back({name, off, len, pad});
    off += len;
  };
  int viewpad = 8 * p.view - 3 * p.m * p.r, iopad = 8 * p.ios - p.n;
  if (!p.kkw) {
    std::vector<uint8_t> e;
    if (!zkb_parse_challenge(p, sig, e))
      return {};
    size_t cb = (2 * p.T + 7) / 8;
    add("challenge", cb, (int)(8 * cb - 2 * p.T));
    add("salt", 32, 0);
    for (int t = 0; t < p.T; t++) {
      std::string r = " t=" + std::to_string(t);
      add("commitment" + r, p.dig, 0);
      if (p.unruh)
        add("G" + r, p.view + p.ios + (e[t] == 0 ? p.ios : 0), 0);
      add("view" + r, p.view, viewpad);
      add("seed_a" + r, p.seed, 0);
      add("seed_b" + r, p.seed, 0);
      if (e[t] != 0)
        add("inputshare3" + r, p.ios, iopad);
    }
  } else {
    if (sig.size() < (size_t)p.dig + 32)
      return {};
    bytes h(sig.begin(), sig.begin() + p.dig);
    Challenge ch = kkw_expand_challenge(p, h);
    add("challenge", p.dig, 0);
    add("salt", 32, 0);
    TreeShape it(p.T), pt(p.N);
    add("iSeedInfo", seed_revealed_nodes(it, ch.C).size() * p.seed, 0);
    std::vector<uint16_t> missing;
    for (int t = 0; t < p.T; t++)
      if (std::find(ch.C.begin(), ch.C.end(), (uint16_t)t) == ch.C.end())
        missing.push_back((uint16_t)t);
    add("cvInfo", merkle_revealed_nodes(it, missing).size() * p.dig, 0);
    for (int t = 0; t < p.T; t++) {
      auto itc = std::find(ch.C.begin(), ch.C.end(), (uint16_t)t);
      if (itc == ch.C.end())
        continue;
      int P = ch.P[itc - ch.C.begin()];
      std::string r = " t=" + std::to_string(t);
      add("seedInfo" + r, seed_revealed_nodes(pt, {(uint16_t)P}).size() * p.seed, 0);
      if (P != p.N - 1)
        add("aux" + r, p.view, viewpad);
      add("input" + r, p.ios, iopad);
      add("msgs" + r, p.view, viewpad);
      add("C" + r, p.dig, 0);
    }
  }
  if (off != sig.size())
    return {};
  return f;
}

// =========================================================================== M5 sizes
size_t zkb_sig_size(const Params& p, const std::vector<uint8_t>& e) {
  size_t s = (2 * p.T + 7) / 8 + 32;
  for (int t = 0; t < p.T; t++) {
    s += p.dig + p.view + 2 * p.seed;
    if (p.unruh)
      s += p.view + p.ios + (e[t] == 0 ? p.ios : 0);
    if (e[t] != 0)
      s += p.ios;
  }
  return s;
}
size_t kkw_sig_size(const Params& p, const std::vector<uint16_t>& C, const std::vector<uint16_t>& P) {
  TreeShape it(p.T), pt(p.N);
  size_t s = p.dig + 32;
  s += seed_revealed_nodes(it, C).size() * p.seed;
  std::vector<uint16_t> missing;
  for (int t = 0; t < p.T; t++)
    if (std::find(C.begin(), C.end(), (uint16_t)t) == C.end())
      missing.push_back((uint16_t)t);
  s += merkle_revealed_nodes(it, missing).size() * p.dig;
  for (size_t i = 0; i < C.size(); i++) {
    s += seed_revealed_nodes(pt, {P[i]}).size() * p.seed;
    if (P[i] != p.N - 1)
      s += p.view;
    s += p.ios + p.view + p.dig;
  }
  return s;
}
namespace {
// Exact maximisation of (seed*#revealed seed nodes + dig*#revealed merkle nodes) over all hide sets of
// size u on the truncated complete tree with T leaves. Both reveal procedures emit exactly one node
// per maximal subtree that contains no hidden leaf and whose parent subtree contains one, so the cost
// is additive over the tree; the DP is over (node, #hidden leaves below it).
struct MaxDP {
  const TreeShape& t;
  int u;
  size_t unit;
  std::vector<std::vector<long>> f;                 // f[node][k], -1 = infeasible
  std::vector<std::vector<std::pair<int, int>>> ch; // argmax split
  std::vector<int> leaves;
  MaxDP(const TreeShape& t, int u, size_t unit) : t(t), u(u), unit(unit), f(t.numNodes), ch(t.numNodes), leaves(t.numNodes, 0) {
    for (int i = t.numNodes - 1; i >= 0; i--) {
      if (!t.exists(i))
        continue;
      f[i].assign(u + 1, -1);
      ch[i].assign(u + 1, {0, 0});
      if (t.isLeaf(i)) {
        leaves[i] = 1;
        f[i][0] = 0;
        if (u >= 1)
          f[i][1] = 0;
        continue;
      }
      int l = 2 * i + 1, r = 2 * i + 2;
      bool hr = t.exists(r);
      leaves[i] = leaves[l] + (hr ? leaves[r] : 0);
      f[i][0] = 0;
      for (int k = 1; k <= u && k <= leaves[i]; k++) {
        long best = -1;
        std::pair<int, int> arg{0, 0};
        if (!hr) {
          if (f[l][k] >= 0) {
            best = f[l][k];
            arg = {k, 0};
          }
        } else
          for (int kl = 0; kl <= k; kl++) {
            int kr = k - kl;
            if (kl > leaves[l] || kr > leaves[r])
              continue;
            long a = (kl == 0) ? (long)unit : f[l][kl];
            long b = (kr == 0) ? (long)unit : f[r][kr];
            if (a < 0 || b < 0)
              continue;
            if (a + b > best) {
              best = a + b;
              arg = {kl, kr};
            }
          }
        f[i][k] = best;
        ch[i][k] = arg;
      }
    }
  }
  void collect(int node, int k, std::vector<uint16_t>& out) const {
    if (k == 0)
      return;
    if (t.isLeaf(node)) {
      out.push_back((uint16_t)(node - t.first));
      return;
    }
    collect(2 * node + 1, ch[node][k].first, out);
    if (t.exists(2 * node + 2))
      collect(2 * node + 2, ch[node][k].second, out);
  }
};
} // namespace
size_t true_max_sig_size(const Params& p, Challenge* argmax) {
  if (!p.kkw) {
    std::vector<uint8_t> e(p.T, 1);
    if (argmax)
      argmax->e = e;
    return zkb_sig_size(p, e);
  }
  TreeShape it(p.T);
  MaxDP dp(it, p.u, (size_t)p.seed + p.dig);
  std::vector<uint16_t> C;
  dp.collect(0, p.u, C);
  std::vector<uint16_t> P(p.u, 0);
  if (argmax) {
    argmax->C = C;
    argmax->P = P;
  }
  size_t viaDP = p.dig + 32 + (size_t)dp.f[0][p.u];
  TreeShape pt(p.N);
  viaDP += (size_t)p.u * (seed_revealed_nodes(pt, {0}).size() * p.seed + p.view + p.ios + p.view + p.dig);
  size_t direct = kkw_sig_size(p, C, P);
  if (direct != viaDP)
    throw std::runtime_error("model: KKW size DP disagrees with direct count");
  return viaDP;
}
size_t true_min_sig_size(const Params& p) {
  if (!p.kkw) {
    std::vector<uint8_t> e(p.T, 0);
    return zkb_sig_size(p, e);
  }
  // clustered opened set, hidden party = last
  std::vector<uint16_t> C, P;
  for (int i = 0; i < p.u; i++) {
    C.push_back((uint16_t)i);
    P.push_back((uint16_t)(p.N - 1));
  }
  return kkw_sig_size(p, C, P); // a small value, not claimed minimal
}
} // namespace model
